#!/venv/bin/python
"""
Seeded-change bookkeeping (dev tool, not a registered check).

  tools/seeded.py ingest <worktree> <PROP>      copy <worktree>/_out/m*/ into seeded/<PROP>-<n>/ (unverified)
  tools/seeded.py verify [ids..]                for each: scratch copy of /repo HEAD + patch; run the repo test
                                                suite (must pass), the demo with and without the patch, and the
                                                property's quick check against the scratch copy; update meta.json
  tools/seeded.py report                        rewrite seeded/REPORT.md from the meta.json files
Scratch copies live under /tmp/eg_seed_* and are removed immediately.
"""
import glob
import json
import os
import shutil
import subprocess
import sys
import time

VERIF = os.path.dirname(os.path.dirname(os.path.abspath(__file__)))
SEEDED = os.path.join(VERIF, "seeded")
PY = "/venv/bin/python"


def sh(cmd, cwd=None, env=None, timeout=3600):
    p = subprocess.run(cmd, shell=True, cwd=cwd, env=env, stdout=subprocess.PIPE, stderr=subprocess.STDOUT, timeout=timeout)
    return p.returncode, p.stdout.decode(errors="replace")


def ingest(wt, prop):
    outs = sorted(glob.glob(os.path.join(wt, "_out", "m*")))
    existing = [d for d in os.listdir(SEEDED) if d.startswith(prop + "-")] if os.path.isdir(SEEDED) else []
    n = len(existing)
    for o in outs:
        if not os.path.exists(os.path.join(o, "patch.diff")):
            continue
        n += 1
        dst = os.path.join(SEEDED, f"{prop}-{n}")
        os.makedirs(dst)
        shutil.copy(os.path.join(o, "patch.diff"), dst)
        if os.path.exists(os.path.join(o, "demo.py")):
            shutil.copy(os.path.join(o, "demo.py"), dst)
        note = open(os.path.join(o, "note.txt")).read() if os.path.exists(os.path.join(o, "note.txt")) else ""
        json.dump(dict(id=f"{prop}-{n}", property=prop, source="independent sub-agent given only the property text", needs=note.strip(), verified=False), open(os.path.join(dst, "meta.json"), "w"), indent=1)
        print("ingested", dst)


def scratch(sid):
    d = f"/tmp/eg_seed_{sid}_{os.getpid()}"
    shutil.rmtree(d, ignore_errors=True)
    os.makedirs(d)
    rc, out = sh(f"git -C /repo archive HEAD | tar -x -C {d}")
    assert rc == 0, out
    return d


def verify(sid, checks=None, tier="quick"):
    d = os.path.join(SEEDED, sid)
    meta = json.load(open(os.path.join(d, "meta.json")))
    s = scratch(sid)
    try:
        env = dict(os.environ, PYTHONPATH=s, EG_PATH=s, PYTHONDONTWRITEBYTECODE="1")
        ran = []
        demo = os.path.join(d, "demo.py")
        if os.path.exists(demo):
            rc0, o0 = sh(f"{PY} {demo}", cwd=s, env=env, timeout=600)
            meta["demo_passes_without_change"] = rc0 == 0
            ran.append(f"EG_PATH=<scratch HEAD> demo.py -> rc {rc0}")
        rc, out = sh(f"git apply --whitespace=nowarn {os.path.join(d, 'patch.diff')}", cwd=s)
        if rc != 0:
            # scratch is not a git repo; use patch(1)
            rc, out = sh(f"patch -p1 < {os.path.join(d, 'patch.diff')}", cwd=s)
        meta["patch_applies"] = rc == 0
        if rc != 0:
            meta["verified"] = False
            meta["problem"] = "patch does not apply to /repo HEAD: " + out[-300:]
            return meta
        rc, out = sh(f"{PY} -m pytest -q -p no:cacheprovider -x 2>&1 | tail -3", cwd=s, env=env, timeout=1800)
        tail = out.strip().splitlines()[-1] if out.strip() else ""
        meta["suite_passes_with_change"] = (" failed" not in tail and "error" not in tail.lower() and "passed" in tail)
        meta["suite_tail"] = tail
        ran.append("repo test suite with the change: " + tail)
        if os.path.exists(demo):
            rc1, o1 = sh(f"{PY} {demo}", cwd=s, env=env, timeout=600)
            meta["demo_fails_with_change"] = rc1 != 0
            meta["demo_output_with_change"] = o1.strip()[-400:]
            ran.append(f"EG_PATH=<scratch with change> demo.py -> rc {rc1}")
        props = checks or [meta["property"]]
        res = meta.setdefault("checks", {})
        for p in props:
            t0 = time.time()
            env2 = dict(os.environ, VERIF_REPO=s, VERIF_NO_EVIDENCE="1")
            rc, out = sh(f"./run.py {p} --tier {tier}", cwd=VERIF, env=env2, timeout=3600)
            lines = [l for l in out.splitlines() if l.startswith("VIOLATION") or l.startswith("  kind=")]
            res[f"{p}:{tier}"] = dict(rc=rc, caught=(rc == 1), wall_s=round(time.time() - t0, 1), lines=[l[:300] for l in lines[:6]])
            ran.append(f"VERIF_REPO=<scratch with change> ./run.py {p} --tier {tier} -> rc {rc}")
        meta["what_was_run"] = ran
        if os.path.exists(demo):
            meta["verified"] = bool(meta.get("suite_passes_with_change") and meta.get("demo_fails_with_change") and meta.get("demo_passes_without_change"))
        else:
            # hand-written change without a separate demonstration: the suite must pass; the property break is
            # argued in meta["needs"] and demonstrated by the check's own replay file
            meta["verified"] = bool(meta.get("suite_passes_with_change"))
            meta["no_demo"] = True
        return meta
    finally:
        shutil.rmtree(s, ignore_errors=True)
        json.dump(meta, open(os.path.join(d, "meta.json"), "w"), indent=1)


def report():
    rows = []
    for d in sorted(os.listdir(SEEDED)):
        mp = os.path.join(SEEDED, d, "meta.json")
        if not os.path.exists(mp):
            continue
        m = json.load(open(mp))
        ck = "; ".join(f"{k}: {'CAUGHT' if v['caught'] else 'missed(rc=%s)' % v['rc']} ({v['wall_s']}s)" for k, v in m.get("checks", {}).items())
        first = (m.get("needs") or "").splitlines()[0][:110] if m.get("needs") else ""
        rows.append(f"| {m['id']} | {m['property']} | {'yes' if m.get('verified') else 'NO'} | {ck} | {first} |")
    with open(os.path.join(SEEDED, "REPORT.md"), "w") as f:
        f.write("# Seeded changes (suite-passing, property-breaking) and which checks catch them\n\n")
        f.write("| id | property | verified (suite passes, demo fails with / passes without) | checks | change |\n|---|---|---|---|---|\n")
        f.write("\n".join(rows) + "\n")
    print("\n".join(rows))


if __name__ == "__main__":
    cmd = sys.argv[1]
    if cmd == "ingest":
        ingest(sys.argv[2], sys.argv[3])
    elif cmd == "verify":
        ids = [a for a in sys.argv[2:] if not a.startswith("--")]
        tier = "thorough" if "--thorough" in sys.argv else "quick"
        extra = [a.split("=", 1)[1].split(",") for a in sys.argv if a.startswith("--checks=")]
        ids = ids or sorted(d for d in os.listdir(SEEDED) if os.path.isdir(os.path.join(SEEDED, d)))
        for sid in ids:
            m = verify(sid, extra[0] if extra else None, tier)
            print(sid, "verified" if m.get("verified") else "NOT-VERIFIED", {k: v["caught"] for k, v in m.get("checks", {}).items()}, m.get("problem", ""))
    elif cmd == "report":
        report()
