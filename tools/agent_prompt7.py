#!/venv/bin/python
"""Print the prompt given to a fresh mutant-writing sub-agent for one property (dev tool)."""
import json, sys
pid = sys.argv[1]
wt = sys.argv[2] if len(sys.argv) > 2 else f"/tmp/wt8_{pid}"
p = next(json.loads(l) for l in open("/verif/properties.jsonl") if json.loads(l)["id"] == pid)
print(f"""You are helping to evaluate a verification effort for the open-source pure-Python graph library `edgegraph` (mishaturnbull/edgegraph). You have your own scratch git worktree of the library at {wt} (package directory {wt}/edgegraph, tests in {wt}/tests). Work ONLY inside {wt}. Do not read, list or touch /verif or /repo or any other /tmp/wt_* directory — your work must be independent.

Here is a semantic property of the library that is supposed to hold for every input / history:

PROPERTY {p['id']} — {p['title']}
{p['statement']}
(It is quantified: {p['quantifier']['text']}.)
Relevant files: {', '.join(p['anchors']['files'])}

YOUR TASK: write TWO different, independent, realistic changes ("seeded bugs") to the library source under {wt}/edgegraph, each of which BREAKS this property while the code still imports and the ENTIRE existing test suite still passes. This is round EIGHT of an escalating exercise. The verification effort under evaluation compares the library against reference models on generated inputs and call histories (small and scaled-up graphs, all documented argument forms incl. omitted arguments, many kinds of user subclasses, caching on and off, copies / pickles, fault injection). It already catches wrong MAIN effects of every kind tried so far: wrong results, stale caches, size thresholds, rare call sequences, indirect changes in base classes, exotic classes and arguments. Do NOT go for those. This round is about what an oracle may FORGET TO LOOK AT - keep the main, obvious effect of every operation correct and break the property through something secondary: a SECOND effect on an object the call does not name (another vertex, link, universe, law set, a class attribute, module-level state shared between universes or classes); a RETURN VALUE that is right in content but wrong in kind (a live view / the internal container / a shared object instead of a fresh one, a generator where a list is documented, an object that compares equal but is another one); an INPUT the caller passed in being modified, kept and modified later, or consumed; state that LEAKS from one call into a later unrelated call (a default argument that accumulates, a module-level scratch list, an attribute left on a class); the right elements in the right order but with one DUPLICATED or one stale entry appended under a specific condition; the right exception but raised AFTER part of the work was done, or the work done and then the exception swallowed; behaviour that differs between the FIRST call in a process and later ones, or between two universes / two classes that should be independent. Each change must still need a specific (not extremely rare) situation to manifest, must look like a plausible refactoring or optimisation, and ordinary use must keep working. The two changes should use different mechanisms / touch different code paths. In note.txt say precisely WHICH observable thing is wrong (so that one can tell whether an oracle looks at it).

For each change k = 1, 2 produce, in the directory {wt}/_out/m<k>/ :
  * patch.diff  — `git diff` of ONLY that change against the worktree's HEAD (apply-able with `git apply` at the worktree root; only files under edgegraph/ are modified),
  * demo.py     — a small standalone program that exits 0 (prints PASS) on the unmodified library and exits non-zero (prints FAIL and what went wrong) with the change applied; it must import the library from the path in the environment variable EG_PATH (insert it at sys.path[0]; default {wt}), use only the public API, and demonstrate a violation of the property statement above (not some other behaviour),
  * note.txt    — 3-6 lines: what the change is, why it breaks the property, what specific situation is needed for it to manifest.

HOW TO WORK
  * Python interpreter: /venv/bin/python . Always run with the worktree first on the path and verify it, e.g.
        cd {wt} && PYTHONPATH={wt} /venv/bin/python -c "import edgegraph; print(edgegraph.__file__)"    # must print a path under {wt}
  * Full test suite (must pass with each change applied alone; about 15 s):
        cd {wt} && PYTHONPATH={wt} /venv/bin/python -m pytest -q -p no:cacheprovider -x 2>&1 | tail -3
    Expected on the unmodified tree: "652 passed, 8 skipped, ... 2 xpassed". A change that makes any test fail is NOT acceptable — revise it.
  * Make one change at a time: edit, run the suite, run your demo (must FAIL), save `git diff > _out/m<k>/patch.diff`, then `git checkout -- edgegraph` to restore the tree, re-run the demo (must PASS), and go on to the next change. At the end the worktree's tracked files must be unmodified (`git status --short` shows only _out/).
  * There is no network. Do not install anything. Do not commit.

Finish by replying with a short summary: for each of the two changes, one line saying what it does and what it needs to manifest, and confirmation that (a) the suite passed with it, (b) demo fails with it and passes without it. If you could not produce two, say how many and why.""")
