#!/venv/bin/python
"""Print the prompt given to a fresh mutant-writing sub-agent for one property (dev tool)."""
import json, sys
pid = sys.argv[1]
wt = sys.argv[2] if len(sys.argv) > 2 else f"/tmp/wt7_{pid}"
p = next(json.loads(l) for l in open("/verif/properties.jsonl") if json.loads(l)["id"] == pid)
print(f"""You are helping to evaluate a verification effort for the open-source pure-Python graph library `edgegraph` (mishaturnbull/edgegraph). You have your own scratch git worktree of the library at {wt} (package directory {wt}/edgegraph, tests in {wt}/tests). Work ONLY inside {wt}. Do not read, list or touch /verif or /repo or any other /tmp/wt_* directory — your work must be independent.

Here is a semantic property of the library that is supposed to hold for every input / history:

PROPERTY {p['id']} — {p['title']}
{p['statement']}
(It is quantified: {p['quantifier']['text']}.)
Relevant files: {', '.join(p['anchors']['files'])}

YOUR TASK: write TWO different, independent, realistic changes ("seeded bugs") to the library source under {wt}/edgegraph, each of which BREAKS this property while the code still imports and the ENTIRE existing test suite still passes. This is round SEVEN of an escalating exercise. The verification effort under evaluation generates many SMALL random cases (graphs of up to ~8 vertices / ~14 links, call histories of up to ~40-100 calls over pools of 2-6 objects, all documented argument forms, many kinds of user subclasses, caching on and off, copies / pickles of used graphs, fault injection into callbacks) plus exhaustive enumeration of very short histories. It already catches: single-token edits; anything memoised/cached/indexed that goes stale or is keyed badly; simple size thresholds up to ~40 objects; one-shot iterables; falsy / value-equal / same-named / multiply-inheriting / slotted user classes; re-entrant or failing callbacks and constructors; weak references; RNG consumption order; suspended generators; changes between two calls; partial filters; exotic argument forms; universes used as vertices (also containing linked vertices, also under restrictive laws); item-access spelling of assignments; generic n-ended links; derived metaclasses; indirect changes in base classes / dunder methods / accessors. Do NOT use any of those. This round is about DEPTH and RARITY: each change must manifest only in a situation that a generator of small random cases is very unlikely to produce (think: fewer than 1 random case in 10 000), for example: it needs at least SIX specific API calls in one particular order on the same two or three objects; or a conjunction of at least FOUR independent conditions (e.g. a particular link class AND a particular direction setting AND a self-loop AND a second parallel link of another class AND the start vertex being falsy); or one particular numeric coincidence (a count equal to a specific value such as 17, 64 or 100, a vertex index equal to a link count, uid values in a particular relation); or a structure at least 50-300 objects large or nested 3+ levels deep; or a specific position (the third of five parallel links, the last member of a universe that is also the first member of another). The change must still be realistic - something that could come out of a refactoring, an optimisation with a fast path, a special case for a corner, an off-by-one in a rarely taken branch - not an obviously planted `if x == 17: break things`. Ordinary use must keep working. The two changes should use different mechanisms / touch different code paths. In note.txt, also estimate how a random generator could hit the situation.

For each change k = 1, 2 produce, in the directory {wt}/_out/m<k>/ :
  * patch.diff  — `git diff` of ONLY that change against the worktree's HEAD (apply-able with `git apply` at the worktree root; only files under edgegraph/ are modified),
  * demo.py     — a small standalone program that exits 0 (prints PASS) on the unmodified library and exits non-zero (prints FAIL and what went wrong) with the change applied; it must import the library from the path in the environment variable EG_PATH (insert it at sys.path[0]; default {wt}), use only the public API, and demonstrate a violation of the property statement above (not some other behaviour),
  * note.txt    — 3-6 lines: what the change is, why it breaks the property, what specific situation is needed for it to manifest.

HOW TO WORK
  * Python interpreter: /venv/bin/python . Always run with the worktree first on the path and verify it, e.g.
        cd {wt} && PYTHONPATH={wt} /venv/bin/python -c "import edgegraph; print(edgegraph.__file__)"    # must print a path under {wt}
  * Full test suite (must pass with each change applied alone; about 15 s):
        cd {wt} && PYTHONPATH={wt} /venv/bin/python -m pytest -q -p no:cacheprovider -x 2>&1 | tail -3
    Expected on the unmodified tree: "652 passed, 8 skipped, ... 2 xpassed". A change that makes any test fail is NOT acceptable — revise it.
  * Make one change at a time: edit, run the suite, run your demo (must FAIL), save `git diff > _out/m<k>/patch.diff`, then `git checkout -- edgegraph` to restore the tree, re-run the demo (must PASS), and go on to the next change. At the end the worktree's tracked files must be unmodified (`git status --short` shows only _out/).
  * There is no network. Do not install anything. Do not commit.

Finish by replying with a short summary: for each of the two changes, one line saying what it does and what it needs to manifest, and confirmation that (a) the suite passed with it, (b) demo fails with it and passes without it. If you could not produce two, say how many and why.""")
