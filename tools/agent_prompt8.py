#!/venv/bin/python
"""Print the prompt given to a fresh mutant-writing sub-agent for one property (dev tool)."""
import json, sys
pid = sys.argv[1]
wt = sys.argv[2] if len(sys.argv) > 2 else f"/tmp/wt9_{pid}"
p = next(json.loads(l) for l in open("/verif/properties.jsonl") if json.loads(l)["id"] == pid)
print(f"""You are helping to evaluate a verification effort for the open-source pure-Python graph library `edgegraph` (mishaturnbull/edgegraph). You have your own scratch git worktree of the library at {wt} (package directory {wt}/edgegraph, tests in {wt}/tests). Work ONLY inside {wt}. Do not read, list or touch /verif or /repo or any other /tmp/wt_* directory — your work must be independent.

Here is a semantic property of the library that is supposed to hold for every input / history:

PROPERTY {p['id']} — {p['title']}
{p['statement']}
(It is quantified: {p['quantifier']['text']}.)
Relevant files: {', '.join(p['anchors']['files'])}

YOUR TASK: write TWO different, independent, realistic changes ("seeded bugs") to the library source under {wt}/edgegraph, each of which BREAKS this property while the code still imports and the ENTIRE existing test suite still passes. This is round NINE, the last one, of an escalating exercise: FREE STYLE. The verification effort under evaluation compares the library against independent reference models on generated inputs and call histories, and by now covers (do NOT use any of these): wrong main results of any operation; single-token edits; anything memoised / cached / indexed that goes stale, is keyed badly (by id(), by name, by code object) or travels through pickle / deepcopy; size thresholds and fast paths from 64 / 128 / 256 objects on, `is` on integers, depth guards, bounded caches; rare call sequences around such thresholds; one-shot iterables; falsy / value-equal / uid-equal / same-named / multiply-inheriting / slotted user classes, properties and class-level attributes on user classes; universes used as vertices (nested, linked, under restrictive laws); generic n-ended links, links that lost an end, a third vertex attached to an edge; item-access spelling; omitted optional arguments (every documented default); renumbered constants; derived metaclasses, same-named classes defined later, weak registries; re-entrant and failing callbacks, failing constructors, the same failing call repeated; suspended generators; membership / attribute changes between two calls; option tables edited in place; shared / module-level result objects (the harness scribbles on every container it receives, reads accessors twice, and expects builders to return new objects); inputs that are kept or adopted; state leaking between calls, between universes, between classes, or from the first call of a process; changes in base classes, dunder methods, accessors, `__repr__`, `__dir__`, `__eq__`/`__hash__`; cross-thread lock leaks; fresh-interpreter behaviour; RNG consumption order. Think of something ELSE: a realistic change (a refactoring, an optimisation, a robustness fix, a feature, a dependency of the code) that breaks the property in a way none of the above families describes. Read the code the property depends on line by line and ask of every line what ELSE a caller could legitimately do or pass, and which documented promise (in docstrings or in the docs/ directory) could quietly stop holding. Ordinary use must keep working and the whole existing suite must pass. The two changes should use different mechanisms / touch different code paths. In note.txt say precisely which observable thing is wrong and why you think none of the listed families covers it.

For each change k = 1, 2 produce, in the directory {wt}/_out/m<k>/ :
  * patch.diff  — `git diff` of ONLY that change against the worktree's HEAD (apply-able with `git apply` at the worktree root; only files under edgegraph/ are modified),
  * demo.py     — a small standalone program that exits 0 (prints PASS) on the unmodified library and exits non-zero (prints FAIL and what went wrong) with the change applied; it must import the library from the path in the environment variable EG_PATH (insert it at sys.path[0]; default {wt}), use only the public API, and demonstrate a violation of the property statement above (not some other behaviour),
  * note.txt    — 3-6 lines: what the change is, why it breaks the property, what specific situation is needed for it to manifest.

HOW TO WORK
  * Python interpreter: /venv/bin/python . Always run with the worktree first on the path and verify it, e.g.
        cd {wt} && PYTHONPATH={wt} /venv/bin/python -c "import edgegraph; print(edgegraph.__file__)"    # must print a path under {wt}
  * Full test suite (must pass with each change applied alone; about 15 s):
        cd {wt} && PYTHONPATH={wt} /venv/bin/python -m pytest -q -p no:cacheprovider -x 2>&1 | tail -3
    Expected on the unmodified tree: "652 passed, 8 skipped, ... 2 xpassed". A change that makes any test fail is NOT acceptable — revise it.
  * Make one change at a time: edit, run the suite, run your demo (must FAIL), save `git diff > _out/m<k>/patch.diff`, then `git checkout -- edgegraph` to restore the tree, re-run the demo (must PASS), and go on to the next change. At the end the worktree's tracked files must be unmodified (`git status --short` shows only _out/).
  * There is no network. Do not install anything. Do not commit.

Finish by replying with a short summary: for each of the two changes, one line saying what it does and what it needs to manifest, and confirmation that (a) the suite passed with it, (b) demo fails with it and passes without it. If you could not produce two, say how many and why.""")
