#!/bin/sh
# validate MANIFEST.json and evidence/*.json against the schemas (dev tool; uses the tooling venv)
cd "$(dirname "$0")/.."
python3-vt - <<'PY'
import json, glob, jsonschema
ms=json.load(open('/root/.vp/MANIFEST.schema.json')); es=json.load(open('/root/.vp/EVIDENCE.schema.json'))
jsonschema.validate(json.load(open('MANIFEST.json')), ms); print('MANIFEST ok')
for f in sorted(glob.glob('evidence/*.json')):
    jsonschema.validate(json.load(open(f)), es); print(f, 'ok')
PY
