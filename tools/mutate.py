#!/venv/bin/python
"""
Systematic first-order mutation of edgegraph/ (dev tool, not a registered check; DESIGN.md §8).

  tools/mutate.py list                     print the mutation points
  tools/mutate.py suite  [--jobs N]        run the repository's test suite on every mutant (scratch copies under
                                           /tmp, removed at once); mutants the suite does NOT kill are the
                                           interesting ones -> seeded/mutation/suite.jsonl
  tools/mutate.py checks [--only FILE]     run the quick checks mapped to the mutated file against every
                                           suite-surviving mutant (stop at the first check that reports a
                                           violation) -> seeded/mutation/checks.jsonl
  tools/mutate.py report                   seeded/mutation/REPORT.md

Mutation operators (on the AST, written back with ast.unparse; docstrings untouched):
  cmp   comparison operator replaced (is/is not, ==/!=, </<=, >/>=, in/not in)
  bool  `and` <-> `or`
  not   `not x` -> `x`
  ifT/ifF  the test of an if / while / conditional expression / comprehension filter forced True / False
  const small int n -> n+1, True <-> False, 0 <-> 1
  arith + <-> -, * <-> //  (binary)
  del   an expression statement (a call), an augmented assignment, `continue`, `break` or `raise` replaced by pass;
        `return x` -> `return None`
  idx   subscript index 0 <-> 1, -1 <-> 0
A mutant is identified by (file, ordinal of the mutation in a deterministic walk).
"""
import ast
import copy
import json
import os
import shutil
import subprocess
import sys
import time
from concurrent.futures import ThreadPoolExecutor

VERIF = os.path.dirname(os.path.dirname(os.path.abspath(__file__)))
OUT = os.path.join(VERIF, "seeded", "mutation")
PY = "/venv/bin/python"
REPO = "/repo"

FILES = [
    "edgegraph/structure/base.py", "edgegraph/structure/vertex.py", "edgegraph/structure/link.py",
    "edgegraph/structure/twoendedlink.py", "edgegraph/structure/directededge.py", "edgegraph/structure/undirectededge.py",
    "edgegraph/structure/universe.py", "edgegraph/structure/singleton.py",
    "edgegraph/traversal/helpers.py", "edgegraph/traversal/breadthfirst.py", "edgegraph/traversal/depthfirst.py",
    "edgegraph/builder/explicit.py", "edgegraph/builder/adjlist.py", "edgegraph/builder/adjmatrix.py", "edgegraph/builder/randgraph.py",
    "edgegraph/output/plaintext.py", "edgegraph/output/plantuml.py", "edgegraph/output/pyvis.py", "edgegraph/output/nrpickler.py",
]

# which checks can possibly see a change in a file (first = most likely to kill)
CHECKS_FOR = {
    "edgegraph/structure/base.py": ["C02", "C03", "C01", "C12", "C08", "C19", "C10", "C14", "C13"],
    "edgegraph/structure/vertex.py": ["C05", "C01", "C03", "C02", "C12", "C04", "C10", "C13"],
    "edgegraph/structure/link.py": ["C01", "C03", "C05", "C12", "C10"],
    "edgegraph/structure/twoendedlink.py": ["C03", "C01", "C05", "C04", "C09", "C12", "C15"],
    "edgegraph/structure/directededge.py": ["C03", "C04", "C09", "C01", "C15", "C14"],
    "edgegraph/structure/undirectededge.py": ["C03", "C04", "C09", "C01"],
    "edgegraph/structure/universe.py": ["C02", "C19", "C03", "C12", "C10", "C06"],
    "edgegraph/structure/singleton.py": ["C17", "C18"],
    "edgegraph/traversal/helpers.py": ["C04", "C09", "C05", "C06", "C07", "C12", "C13", "C16", "C03"],
    "edgegraph/traversal/breadthfirst.py": ["C06", "C07", "C08", "C12", "C13"],
    "edgegraph/traversal/depthfirst.py": ["C06", "C07", "C08", "C12", "C13"],
    "edgegraph/builder/explicit.py": ["C03", "C11", "C20", "C01", "C05"],
    "edgegraph/builder/adjlist.py": ["C11", "C20", "C12"],
    "edgegraph/builder/adjmatrix.py": ["C11", "C12"],
    "edgegraph/builder/randgraph.py": ["C20"],
    "edgegraph/output/plaintext.py": ["C16", "C13"],
    "edgegraph/output/plantuml.py": ["C14", "C13"],
    "edgegraph/output/pyvis.py": ["C15", "C13"],
    "edgegraph/output/nrpickler.py": ["C10", "C13", "C05"],
}

CMP = {ast.Is: ast.IsNot, ast.IsNot: ast.Is, ast.Eq: ast.NotEq, ast.NotEq: ast.Eq, ast.Lt: ast.LtE, ast.LtE: ast.Lt,
       ast.Gt: ast.GtE, ast.GtE: ast.Gt, ast.In: ast.NotIn, ast.NotIn: ast.In}
ARITH = {ast.Add: ast.Sub, ast.Sub: ast.Add, ast.Mult: ast.FloorDiv, ast.FloorDiv: ast.Mult, ast.Mod: ast.Mult}


def _is_docstring(node, parent):
    return (isinstance(node, ast.Expr) and isinstance(node.value, ast.Constant) and isinstance(node.value.value, str))


def points(tree):
    """Deterministic list of (description, apply(tree_copy_node)) built as (path, op) pairs."""
    out = []

    def visit(node, path):
        for field, value in ast.iter_fields(node):
            if isinstance(value, list):
                for i, child in enumerate(value):
                    if isinstance(child, ast.AST):
                        consider(child, path + [(field, i)], node)
                        visit(child, path + [(field, i)])
            elif isinstance(value, ast.AST):
                consider(value, path + [(field, None)], node)
                visit(value, path + [(field, None)])

    def consider(n, path, parent):
        ln = getattr(n, "lineno", 0)
        if isinstance(n, ast.Compare):
            for k, op in enumerate(n.ops):
                if type(op) in CMP:
                    out.append((path, "cmp", k, ln, f"{type(op).__name__} -> {CMP[type(op)].__name__}"))
        if isinstance(n, ast.BoolOp):
            out.append((path, "bool", 0, ln, f"{type(n.op).__name__} flipped"))
        if isinstance(n, ast.UnaryOp) and isinstance(n.op, ast.Not):
            out.append((path, "not", 0, ln, "not x -> x"))
        if isinstance(n, (ast.If, ast.While, ast.IfExp)):
            out.append((path, "ifT", 0, ln, "condition forced True"))
            out.append((path, "ifF", 0, ln, "condition forced False"))
        if isinstance(n, ast.comprehension):
            for k in range(len(n.ifs)):
                out.append((path, "compT", k, getattr(n.ifs[k], "lineno", 0), "comprehension filter forced True"))
        if isinstance(n, ast.Constant) and not isinstance(parent, ast.Expr):
            if isinstance(n.value, bool):
                out.append((path, "const", 0, ln, f"{n.value} -> {not n.value}"))
            elif isinstance(n.value, int) and abs(n.value) <= 64:
                out.append((path, "const", 0, ln, f"{n.value} -> {n.value + 1}"))
                if n.value in (0, 1):
                    out.append((path, "const", 1, ln, f"{n.value} -> {1 - n.value}"))
        if isinstance(n, ast.BinOp) and type(n.op) in ARITH and not (isinstance(n.left, ast.Constant) and isinstance(n.left.value, str)):
            out.append((path, "arith", 0, ln, f"{type(n.op).__name__} -> {ARITH[type(n.op)].__name__}"))
        if isinstance(n, ast.Expr) and isinstance(n.value, ast.Call):
            out.append((path, "del", 0, ln, "call statement removed: " + ast.unparse(n)[:60]))
        if isinstance(n, ast.AugAssign):
            out.append((path, "del", 0, ln, "augmented assignment removed: " + ast.unparse(n)[:60]))
        if isinstance(n, (ast.Continue, ast.Break)):
            out.append((path, "del", 0, ln, type(n).__name__ + " removed"))
        if isinstance(n, ast.Raise):
            out.append((path, "del", 0, ln, "raise removed: " + ast.unparse(n)[:60]))
        if isinstance(n, ast.Return) and n.value is not None and not (isinstance(n.value, ast.Constant) and n.value.value is None):
            out.append((path, "ret", 0, ln, "return value -> None: " + ast.unparse(n)[:60]))

    visit(tree, [])
    return out


def _get(tree, path):
    node = tree
    for field, i in path:
        node = getattr(node, field)
        if i is not None:
            node = node[i]
    return node


def _set(tree, path, new):
    parent = _get(tree, path[:-1])
    field, i = path[-1]
    if i is None:
        setattr(parent, field, new)
    else:
        getattr(parent, field)[i] = new


def mutate(src, k):
    tree = ast.parse(src)
    pts = points(tree)
    path, op, sub, ln, desc = pts[k]
    n = _get(tree, path)
    if op == "cmp":
        n.ops[sub] = CMP[type(n.ops[sub])]()
    elif op == "bool":
        n.op = ast.Or() if isinstance(n.op, ast.And) else ast.And()
    elif op == "not":
        _set(tree, path, n.operand)
    elif op in ("ifT", "ifF"):
        n.test = ast.Constant(value=(op == "ifT"))
    elif op == "compT":
        n.ifs[sub] = ast.Constant(value=True)
    elif op == "const":
        if isinstance(n.value, bool):
            n.value = not n.value
        elif sub == 0:
            n.value = n.value + 1
        else:
            n.value = 1 - n.value
    elif op == "arith":
        n.op = ARITH[type(n.op)]()
    elif op == "del":
        _set(tree, path, ast.Pass())
    elif op == "ret":
        n.value = ast.Constant(value=None)
    ast.fix_missing_locations(tree)
    return ast.unparse(tree) + "\n", ln, op, desc


def context(tree, path):
    """(name of the enclosing function, source of the enclosing statement) of a mutation point."""
    node, fn, stmt = tree, None, None
    for field, i in path:
        node = getattr(node, field)
        if i is not None:
            node = node[i]
        if isinstance(node, (ast.FunctionDef, ast.AsyncFunctionDef)):
            fn = node.name
        if isinstance(node, ast.stmt) and not isinstance(node, (ast.FunctionDef, ast.ClassDef, ast.If, ast.For, ast.While, ast.Try, ast.With)):
            stmt = node
    return fn, (ast.unparse(stmt) if stmt is not None else "")


def stats_only(f, k):
    """Cache-statistics bookkeeping (Vertex._CACHE_STATS counters, total_cache_stats()): no property speaks about it."""
    tree = ast.parse(open(os.path.join(REPO, f)).read())
    path = points(tree)[k][0]
    fn, stmt = context(tree, path)
    return fn == "total_cache_stats" or ("_CACHE_STATS" in stmt and "__qa_nb_cache" not in stmt)


def all_mutants():
    out = []
    for f in FILES:
        src = open(os.path.join(REPO, f)).read()
        pts = points(ast.parse(src))
        for k, (path, op, sub, ln, desc) in enumerate(pts):
            out.append(dict(file=f, k=k, line=ln, op=op, desc=desc))
    return out


def sh(cmd, cwd=None, env=None, timeout=1800):
    try:
        p = subprocess.run(cmd, shell=True, cwd=cwd, env=env, stdout=subprocess.PIPE, stderr=subprocess.STDOUT, timeout=timeout)
        return p.returncode, p.stdout.decode(errors="replace")
    except subprocess.TimeoutExpired:
        return 124, "timeout"


def scratch(tag):
    d = f"/tmp/eg_mut_{tag}_{os.getpid()}"
    shutil.rmtree(d, ignore_errors=True)
    os.makedirs(d)
    rc, out = sh(f"git -C {REPO} archive HEAD | tar -x -C {d}")
    assert rc == 0, out
    return d


def load(path):
    if not os.path.exists(path):
        return []
    return [json.loads(l) for l in open(path) if l.strip()]


def head():
    return subprocess.run(f"git -C {REPO} rev-parse --short HEAD", shell=True, stdout=subprocess.PIPE).stdout.decode().strip()


def cmd_suite(jobs):
    os.makedirs(OUT, exist_ok=True)
    path = os.path.join(OUT, "suite.jsonl")
    done = {(r["file"], r["k"]) for r in load(path)}
    todo = [m for m in all_mutants() if (m["file"], m["k"]) not in done]
    print(f"{len(todo)} mutants to run ({len(done)} done)", flush=True)
    import threading

    lock = threading.Lock()
    dirs = [scratch(f"s{j}") for j in range(jobs)]
    free = list(dirs)

    def one(m):
        with lock:
            d = free.pop()
        try:
            orig = open(os.path.join(REPO, m["file"])).read()
            new, ln, op, desc = mutate(orig, m["k"])
            tgt = os.path.join(d, m["file"])
            open(tgt, "w").write(new)
            env = dict(os.environ, PYTHONPATH=d, PYTHONDONTWRITEBYTECODE="1")
            t0 = time.time()
            rc, out = sh(f"{PY} -m pytest -q -p no:cacheprovider -x --timeout=300 2>&1 | tail -3", cwd=d, env=env, timeout=900)
            tail = out.strip().splitlines()[-1] if out.strip() else ""
            survived = (" failed" not in tail and "error" not in tail.lower() and " passed" in tail)
            open(tgt, "w").write(orig)
            rec = dict(m, survived_suite=survived, tail=tail[:120], wall_s=round(time.time() - t0, 1), repo_head=head())
            with lock:
                with open(path, "a") as f:
                    f.write(json.dumps(rec) + "\n")
            return rec
        finally:
            with lock:
                free.append(d)

    try:
        with ThreadPoolExecutor(jobs) as ex:
            n = 0
            for rec in ex.map(one, todo):
                n += 1
                if n % 50 == 0:
                    print(n, "done", flush=True)
    finally:
        for d in dirs:
            shutil.rmtree(d, ignore_errors=True)


def cmd_checks(only=None):
    path = os.path.join(OUT, "checks.jsonl")
    done = {(r["file"], r["k"]) for r in load(path)}
    surv = [r for r in load(os.path.join(OUT, "suite.jsonl")) if r["survived_suite"] and (r["file"], r["k"]) not in done]
    if only:
        surv = [r for r in surv if only in r["file"]]
    print(f"{len(surv)} suite-surviving mutants to check", flush=True)
    d = scratch("c")
    try:
        for m in surv:
            orig = open(os.path.join(REPO, m["file"])).read()
            new, ln, op, desc = mutate(orig, m["k"])
            tgt = os.path.join(d, m["file"])
            open(tgt, "w").write(new)
            killed_by, ran, lines = None, [], []
            t0 = time.time()
            so = stats_only(m["file"], m["k"])
            for c in ([] if so else CHECKS_FOR[m["file"]]):   # statistics-only mutants: recorded, nothing can see them
                env = dict(os.environ, VERIF_REPO=d, VERIF_NO_EVIDENCE="1")
                rc, out = sh(f"./run.py {c} --tier quick", cwd=VERIF, env=env, timeout=1800)
                ran.append(f"{c}:{rc}")
                if rc == 1:
                    killed_by = c
                    lines = [l[:240] for l in out.splitlines() if l.startswith("  kind=")][:2]
                    break
            open(tgt, "w").write(orig)
            rec = dict(file=m["file"], k=m["k"], line=m["line"], op=m["op"], desc=m["desc"], killed_by=killed_by, ran=ran, lines=lines, stats_only=so, wall_s=round(time.time() - t0, 1), repo_head=head())
            with open(path, "a") as f:
                f.write(json.dumps(rec) + "\n")
            print(m["file"], m["k"], m["line"], m["desc"][:50], "->", killed_by or "SURVIVED", ran, flush=True)
    finally:
        shutil.rmtree(d, ignore_errors=True)


def cmd_report():
    suite = load(os.path.join(OUT, "suite.jsonl"))
    checks = {(r["file"], r["k"]): r for r in load(os.path.join(OUT, "checks.jsonl"))}
    notes = {}
    np_ = os.path.join(OUT, "triage.json")
    if os.path.exists(np_):
        notes = json.load(open(np_))
    tot = len(suite)
    surv = [r for r in suite if r["survived_suite"]]
    done = [r for r in surv if (r["file"], r["k"]) in checks]
    stats = [r for r in done if checks[(r["file"], r["k"])].get("stats_only")]
    killed = [r for r in done if checks[(r["file"], r["k"])]["killed_by"]]
    alive = [r for r in done if not checks[(r["file"], r["k"])]["killed_by"] and not checks[(r["file"], r["k"])].get("stats_only")]
    with open(os.path.join(OUT, "REPORT.md"), "w") as f:
        f.write("# First-order mutants of edgegraph/ : the repository's suite vs. the /verif checks\n\n")
        f.write(f"{tot} mutants generated (tools/mutate.py; repo HEAD {head()}).  The repository's own suite kills {tot - len(surv)} and lets **{len(surv)}** pass.\n\n")
        f.write(f"* {len(stats)} of the survivors touch only the neighbor-cache *statistics* (`Vertex._CACHE_STATS` counters, `total_cache_stats()`), which no property mentions; they were not run.\n")
        f.write(f"* Of the other {len(killed) + len(alive)}, the quick checks mapped to the mutated file kill **{len(killed)}**.\n")
        f.write(f"* The remaining {len(alive)} survive the suite and the checks; each is triaged by hand below: all are equivalent mutants or change something no property speaks about ({len([r for r in alive if notes.get(r['file'] + '#' + str(r['k']))])} of {len(alive)} have a note).\n")
        f.write(f"* {len(surv) - len(done)} not run.\n\n")
        f.write("Two survivors exposed real gaps and one exposed a soundness problem of the checks; all three were closed (DESIGN.md §3 'omitted arguments', §11 correction 9, C14 attribute lines) and the affected mutants re-run: "
                "`unlink(destroy=True)` default flipped (now killed by C03), `randgraph` defaults (now killed by C20), PlantUML attribute lines dropped / unfiltered (now killed by C14), "
                "and `DIR_SENS_BACKWARD = 3` (was killed for the wrong reason; now survives, correctly).\n\n")
        by = {}
        for r in done:
            c = checks[(r["file"], r["k"])]
            row = by.setdefault(r["file"], [0, 0, 0, 0])
            row[0] += 1
            if c.get("stats_only"):
                row[3] += 1
            elif c["killed_by"]:
                row[1] += 1
            else:
                row[2] += 1
        f.write("| file | suite survivors | killed by a check | survive the checks (triaged) | statistics only |\n|---|---|---|---|---|\n")
        for k, v in sorted(by.items()):
            f.write(f"| {k} | {v[0]} | {v[1]} | {v[2]} | {v[3]} |\n")
        f.write("\n## Mutants that survive the suite and the checks\n\n| file:line | mutation | checks run (id:exit code) | triage |\n|---|---|---|---|\n")
        for r in alive:
            c = checks[(r["file"], r["k"])]
            key = f"{r['file']}#{r['k']}"
            f.write(f"| {r['file']}:{r['line']} (#{r['k']}) | {r['op']}: {r['desc'].replace('|', '/')} | {' '.join(c['ran'])} | {notes.get(key, '')} |\n")
        f.write("\n## Killed by a check (the suite passes)\n\n| file:line | mutation | killed by | first violation |\n|---|---|---|---|\n")
        for r in killed:
            c = checks[(r["file"], r["k"])]
            f.write(f"| {r['file']}:{r['line']} (#{r['k']}) | {r['op']}: {r['desc'].replace('|', '/')} | {c['killed_by']} | {(c['lines'] or [''])[0].strip()[:160].replace('|', '/')} |\n")
    print(f"total={tot} suite_survivors={len(surv)} stats_only={len(stats)} killed_by_checks={len(killed)} alive={len(alive)} untriaged={len([r for r in alive if not notes.get(r['file'] + '#' + str(r['k']))])}")


if __name__ == "__main__":
    cmd = sys.argv[1]
    if cmd == "list":
        ms = all_mutants()
        for m in ms:
            print(m)
        print(len(ms))
    elif cmd == "suite":
        jobs = 12
        for a in sys.argv:
            if a.startswith("--jobs="):
                jobs = int(a.split("=")[1])
        cmd_suite(jobs)
    elif cmd == "checks":
        only = None
        for a in sys.argv:
            if a.startswith("--only="):
                only = a.split("=")[1]
        cmd_checks(only)
    elif cmd == "report":
        cmd_report()
    elif cmd == "try":
        # tools/mutate.py try <file> <k> <CHECK> [tier]: one check against one mutant
        f, k, chk = sys.argv[2], int(sys.argv[3]), sys.argv[4]
        tier = sys.argv[5] if len(sys.argv) > 5 else "quick"
        d = scratch("t")
        try:
            new, ln, op, desc = mutate(open(os.path.join(REPO, f)).read(), k)
            open(os.path.join(d, f), "w").write(new)
            rc, out = sh(f"./run.py {chk} --tier {tier}", cwd=VERIF, env=dict(os.environ, VERIF_REPO=d, VERIF_NO_EVIDENCE="1"))
            print(f"{f}:{ln} {op}: {desc} -> rc={rc}")
            print("\n".join(l[:260] for l in out.splitlines() if l.startswith("  kind=") or "violations=" in l or "HARNESS" in l))
        finally:
            shutil.rmtree(d, ignore_errors=True)
    elif cmd == "show":
        f, k = sys.argv[2], int(sys.argv[3])
        orig = open(os.path.join(REPO, f)).read()
        new, ln, op, desc = mutate(orig, k)
        import difflib

        a = ast.unparse(ast.parse(orig)).splitlines()
        b = new.splitlines()
        print("\n".join(difflib.unified_diff(a, b, lineterm="", n=2)))
