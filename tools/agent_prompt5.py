#!/venv/bin/python
"""Print the prompt given to a fresh mutant-writing sub-agent for one property (dev tool)."""
import json, sys
pid = sys.argv[1]
wt = sys.argv[2] if len(sys.argv) > 2 else f"/tmp/wt6_{pid}"
p = next(json.loads(l) for l in open("/verif/properties.jsonl") if json.loads(l)["id"] == pid)
print(f"""You are helping to evaluate a verification effort for the open-source pure-Python graph library `edgegraph` (mishaturnbull/edgegraph). You have your own scratch git worktree of the library at {wt} (package directory {wt}/edgegraph, tests in {wt}/tests). Work ONLY inside {wt}. Do not read, list or touch /verif or /repo or any other /tmp/wt_* directory — your work must be independent.

Here is a semantic property of the library that is supposed to hold for every input / history:

PROPERTY {p['id']} — {p['title']}
{p['statement']}
(It is quantified: {p['quantifier']['text']}.)
Relevant files: {', '.join(p['anchors']['files'])}

YOUR TASK: write TWO different, independent, realistic changes ("seeded bugs") to the library source under {wt}/edgegraph, each of which BREAKS this property while the code still imports and the ENTIRE existing test suite still passes. This is round SIX of an escalating exercise. The verification effort under evaluation already catches: single-token edits (`is None` vs truthiness, `==` vs `is`, dropped guards, exact-type checks); anything memoised/cached/indexed that goes stale, is keyed badly or travels through pickle/deepcopy; size thresholds; one-shot iterables consumed twice; falsy / value-equal / uid-equal / same-named / multiply-inheriting / slotted user classes; temporary attributes left behind; re-entrant or failing callbacks and constructors; weak references; per-process counters; RNG consumption order; suspended generators; membership or attribute changes between two calls; deep recursion; partial filters; exotic argument forms (tuples, ChainMap, MappingProxyType, keyword order). Do NOT use any of those. This round is about INDIRECT breakage: make your change in a DIFFERENT place than the code the property is mostly about - a base class, a shared helper, a dunder method, a property accessor, a default argument, a constant, module import-time code, an `__init__.py` re-export, a generic utility used by several features - so that the code directly implementing the property is untouched yet the property no longer holds in some specific situation. Look at what the directly relevant code CALLS and RELIES ON (BaseObject item access and attribute storage, uid generation, `links` / `vertices` / `universes` accessors and what type they return, the constants for directions and unknown-handling, the explicit-builder helpers that other builders reuse, dill/pickle hooks, `__repr__`, class attributes) and change one of those dependencies in a way that looks like a harmless clean-up or API nicety. Prefer changes a code reviewer would plausibly ACCEPT. Each change must need such a specific situation to manifest; ordinary single-call use must keep working. The two changes should use different mechanisms / touch different code paths.

For each change k = 1, 2 produce, in the directory {wt}/_out/m<k>/ :
  * patch.diff  — `git diff` of ONLY that change against the worktree's HEAD (apply-able with `git apply` at the worktree root; only files under edgegraph/ are modified),
  * demo.py     — a small standalone program that exits 0 (prints PASS) on the unmodified library and exits non-zero (prints FAIL and what went wrong) with the change applied; it must import the library from the path in the environment variable EG_PATH (insert it at sys.path[0]; default {wt}), use only the public API, and demonstrate a violation of the property statement above (not some other behaviour),
  * note.txt    — 3-6 lines: what the change is, why it breaks the property, what specific situation is needed for it to manifest.

HOW TO WORK
  * Python interpreter: /venv/bin/python . Always run with the worktree first on the path and verify it, e.g.
        cd {wt} && PYTHONPATH={wt} /venv/bin/python -c "import edgegraph; print(edgegraph.__file__)"    # must print a path under {wt}
  * Full test suite (must pass with each change applied alone; about 15 s):
        cd {wt} && PYTHONPATH={wt} /venv/bin/python -m pytest -q -p no:cacheprovider -x 2>&1 | tail -3
    Expected on the unmodified tree: "652 passed, 8 skipped, ... 2 xpassed". A change that makes any test fail is NOT acceptable — revise it.
  * Make one change at a time: edit, run the suite, run your demo (must FAIL), save `git diff > _out/m<k>/patch.diff`, then `git checkout -- edgegraph` to restore the tree, re-run the demo (must PASS), and go on to the next change. At the end the worktree's tracked files must be unmodified (`git status --short` shows only _out/).
  * There is no network. Do not install anything. Do not commit.

Finish by replying with a short summary: for each of the two changes, one line saying what it does and what it needs to manifest, and confirmation that (a) the suite passed with it, (b) demo fails with it and passes without it. If you could not produce two, say how many and why.""")
