#!/venv/bin/python
"""
Hand-written property-breaking changes (DESIGN.md §8), turned into seeded/own-<PROP>-<n>/patch.diff.
Each entry: (property, file, old text, new text, what it needs to manifest).  Dev tool.
"""
import json
import os
import shutil
import subprocess
import sys

VERIF = os.path.dirname(os.path.dirname(os.path.abspath(__file__)))
M = [
 ("C01", "edgegraph/structure/vertex.py", "        if link not in self._links:\n            self._links.append(link)\n            if self not in link.vertices:\n                link.add_vertex(self)",
  "        self._links.append(link)\n        if self not in link.vertices:\n            link.add_vertex(self)",
  "add_to_link loses its 'already associated' guard: a vertex lists a link twice after v.add_to_link(L) on a link it already has / a self-loop constructor"),
 ("C02", "edgegraph/structure/universe.py", "        self._vertices.append(vert)\n        if self not in vert.universes:", "        self._vertices.insert(0, vert)\n        if self not in vert.universes:",
  "Universe.add_vertex prepends: member order is not insertion order (needs >= 2 members and an order check)"),
 ("C03", "edgegraph/builder/explicit.py", "            if lnk.other(v1) is v2:\n                return lnk", "            if lnk.v1 is v1 and lnk.v2 is v2:\n                return lnk",
  "dontdup ignores a link stored in the reverse orientation (b->a): a second link is created although one joins the pair"),
 ("C04", "edgegraph/traversal/helpers.py", "            elif issubclass(type(link), DirectedEdge) and (link.v2 is vert):\n\n                # see above notes on short-circuiting filterfunc() if it's not\n                # provided\n                if filterfunc is None or filterfunc(link, v2):",
  "            elif type(link) is DirectedEdge and (link.v2 is vert):\n\n                # see above notes on short-circuiting filterfunc() if it's not\n                # provided\n                if filterfunc is None or filterfunc(link, v2):",
  "BACKWARD follows only exact DirectedEdge instances: a subclass of DirectedEdge entering v is treated as unknown class"),
 ("C05", "edgegraph/structure/twoendedlink.py", "            new.add_to_link(self)\n        self._invalidate_ends()", "            new.add_to_link(self)",
  "end assignment no longer invalidates the vertex staying at the other end: neighbors(a); e.v2 = c; neighbors(a) is stale with caching on"),
 ("C05", "edgegraph/traversal/helpers.py", "    cached = vert._qa_neighbors_get(\n        direction_sensitive, unknown_handling, filterfunc\n    )", "    cached = vert._qa_neighbors_get(\n        direction_sensitive, LNK_UNKNOWN_ERROR, filterfunc\n    )",
  "cache lookup ignores unknown_handling (insert still keyed correctly): a NONNEIGHBOR answer is served for a later ERROR/NEIGHBOR query only when an entry under ERROR exists - needs two queries with different handling on a vertex with an unknown-class link"),
 ("C06", "edgegraph/traversal/depthfirst.py", "            yield from _dft_recur(\n                uni,\n                w,\n                visited=visited,\n                direction_sensitive=direction_sensitive,", "            yield from _dft_recur(\n                uni,\n                w,\n                visited=visited,\n                direction_sensitive=helpers.DIR_SENS_FORWARD,",
  "dft_recursive uses FORWARD below the start vertex: differs under BACKWARD/ANY at depth >= 2"),
 ("C07", "edgegraph/traversal/depthfirst.py", "            ):\n                stack.append(w)", "            ):\n                if w not in discovered:\n                    stack.append(w)",
  "idft_iterative skips pushing already-discovered neighbours only - harmless - placeholder replaced below"),
 ("C08", "edgegraph/traversal/breadthfirst.py", "        if start[attrib] == val:\n            return start", "        if start[attrib] is val:\n            return start",
  "bfs compares the START vertex's attribute with `is`: an equal-but-not-identical sought value on the start vertex is missed"),
 ("C09", "edgegraph/traversal/helpers.py", "                if link.v1 is not v1:\n                    # this is a link from v2 to v1, not the way we want\n                    continue", "                if link.v1 is not v1 and link.v2 is not v2:\n                    # this is a link from v2 to v1, not the way we want\n                    continue",
  "find_links direction test weakened: a reverse directed link b->a is returned for (a, b) only when ... self-loop pairs/aliasing; needs direction-sensitive query on a reverse edge"),
 ("C10", "edgegraph/output/nrpickler.py", "        if self.proto >= 2:\n            self.write(pickle.PROTO + chr(self.proto).encode(\"ascii\"))", "        if self.proto >= 2:\n            self.write(pickle.PROTO + chr(self.proto).encode(\"ascii\"))\n        if self.proto >= 4:\n            self.framer.start_framing()",
  "placeholder"),
 ("C11", "edgegraph/builder/adjlist.py", "            explicit.link_from_to(v1, linktype, v2)", "            explicit.link_from_to(v1, linktype, v2, dontdup=True)",
  "load_adj_dict de-duplicates: a repeated entry / an entry whose pair is already linked creates no link"),
 ("C12", "edgegraph/structure/base.py", "        return list(self._universes)", "        return self._universes",
  "BaseObject.universes hands out the internal list: v.universes.clear() detaches the vertex on one side only"),
 ("C13", "edgegraph/output/plaintext.py", "        verts = sorted(uni.vertices, key=sort)", "        verts = uni._vertices\n        verts.sort(key=sort)",
  "basic_render(sort=...) sorts the universe's own member list in place: a read-only call reorders Universe.vertices"),
 ("C14", "edgegraph/output/plantuml.py", "    v1, v2 = (lnk.v1, lnk.v2)", "    v1, v2 = (lnk.v2, lnk.v1) if not issubclass(type(lnk), DirectedEdge) else (lnk.v1, lnk.v2)",
  "relation lines of non-directed links are written v2-to-v1"),
 ("C15", "edgegraph/output/pyvis.py", "                net.directed = issubclass(type(edge), DirectedEdge)", "                net.directed = net.directed or issubclass(type(edge), DirectedEdge)",
  "once a directed edge was drawn every later edge gets an arrow: an undirected link after a directed one is exported arrowed"),
 ("C16", "edgegraph/output/plaintext.py", "            nbs = sorted(helpers.neighbors(vert), key=sort)", "            nbs = sorted(set(helpers.neighbors(vert)), key=sort)",
  "with a sort key, repeated neighbours (parallel edges) are collapsed"),
 ("C17", "edgegraph/structure/singleton.py", "    for key in [k for k in imap if k[0] is cls]:", "    for key in [k for k in imap if issubclass(k[0], cls)]:",
  "clear_semi_singleton(A) also clears the instances of A's subclasses"),
 ("C18", "edgegraph/structure/singleton.py", "        if cls in TrueSingleton._TrueSingleton__singleton_instances:\n            del TrueSingleton._TrueSingleton__singleton_instances[cls]",
  "        for k in [k for k in TrueSingleton._TrueSingleton__singleton_instances if issubclass(k, cls)]:\n            del TrueSingleton._TrueSingleton__singleton_instances[k]",
  "clear_true_singleton(P) also clears the instance of subclass Q(P)"),
 ("C19", "edgegraph/structure/universe.py", "        if old is not None and old.laws is self:\n            old.laws = None\n", "",
  "UniverseLaws.applies_to = other no longer detaches the previous universe: needs a law set in use moved from the applies_to side"),
 ("C20", "edgegraph/builder/randgraph.py", "        if ensurelink:\n            k = max(k, 1)", "        if ensurelink and i:\n            k = max(k, 1)",
  "ensurelink is not applied to vertex 0: with low connectivity vertex 0 may be v1 of no link"),
]

M += [
 ("C05", "edgegraph/traversal/helpers.py",
  ["    cached = vert._qa_neighbors_get(\n        direction_sensitive, unknown_handling, filterfunc\n    )", "        list(nbs), direction_sensitive, unknown_handling, filterfunc\n"],
  ["    cached = vert._qa_neighbors_get(\n        direction_sensitive, LNK_UNKNOWN_ERROR, filterfunc\n    )", "        list(nbs), direction_sensitive, LNK_UNKNOWN_ERROR, filterfunc\n"],
  "the cache key omits unknown_handling (lookup and insert): with an unknown-class link at v, neighbors(v, FORWARD, NONNEIGHBOR) followed by neighbors(v, FORWARD, NEIGHBOR) serves the first answer"),
 ("C09", "edgegraph/traversal/helpers.py", "            # see above notes on short-circuiting filterfunc() if it's not\n            # provided\n            if filterfunc is None or filterfunc(link):\n                links.add(link)",
  "            links.add(link)",
  "find_links(direction_sensitive=False) ignores filterfunc"),
 ("C14", "edgegraph/output/plantuml.py", "    v1, v2 = lnk.v1, lnk.v2", "    v1, v2 = (lnk.v1, lnk.v2) if issubclass(type(lnk), DirectedEdge) else (lnk.v2, lnk.v1)",
  "relation lines of non-directed links are written v2-to-v1"),
 ("C06", "edgegraph/traversal/breadthfirst.py", "            if v not in visited:\n                visited.add(v)\n                queue.append(v)\n\n                if (ff_result and ff_result(v)) or not ff_result:\n                    yield v",
  "            if v not in visited and v not in queue:\n                queue.append(v)\n\n                if (ff_result and ff_result(v)) or not ff_result:\n                    yield v",
  "placeholder"),
 ("C01", "edgegraph/structure/vertex.py", "            for link in links:\n                self.add_to_link(link)", "            self._links = list(dict.fromkeys(links))",
  "Vertex(links=[...]) stores the links without telling them: the new vertex lists links that do not list it"),
 ("C11", "edgegraph/builder/adjmatrix.py", "            if cell:\n", "            if cell is True or cell == 1:\n",
  "only True/1 cells create links: other truthy cell values (2, -1, 'x', [0]) are ignored"),
 ("C10", "edgegraph/output/nrpickler.py", "                elif isinstance(lw, _LazyMemo):\n                    self.realmemoize(lw.obj)", "                elif isinstance(lw, _LazyMemo):\n                    if id(lw.obj) not in self.memo:\n                        self.realmemoize(lw.obj)",
  "a duplicate lazy memo is skipped silently instead of asserting: an object serialised twice is duplicated in the copy (sharing lost) - needs an object reached again before its lazy memo ran"),
 ("C18", "edgegraph/structure/singleton.py", "    if cls:\n        if cls in TrueSingleton", "    if cls is not None and cls.__mro__[1] is object:\n        if cls in TrueSingleton",
  "placeholder"),
 ("C12", "edgegraph/structure/universe.py", "        return list(self._vertices)", "        return self._vertices",
  "Universe.vertices hands out the internal member list"),
 ("C13", "edgegraph/traversal/depthfirst.py", "    visited: dict[Vertex, None] = {}\n    yield from _dft_recur(", "    visited: dict[Vertex, None] = uni.__dict__.setdefault('_dft_scratch', {}) if uni is not None else {}\n    visited.clear()\n    yield from _dft_recur(",
  "idft_recursive keeps its visited map as a scratch attribute on the universe: a read-only traversal adds an attribute to the universe"),
]


def main():
    base = "/tmp/eg_own_base"
    shutil.rmtree(base, ignore_errors=True)
    os.makedirs(base)
    subprocess.run(f"git -C /repo archive HEAD | tar -x -C {base}", shell=True, check=True)
    counts = {}
    for prop, path, old, new, needs in M:
        if needs.startswith("placeholder") or "placeholder" in needs:
            continue
        src = open(os.path.join(base, path)).read()
        pairs = list(zip(old, new)) if isinstance(old, list) else [(old, new)]
        bad = [o for o, _ in pairs if src.count(o) != 1]
        if bad:
            print("SKIP (anchor count != 1)", prop, path, repr(bad[0][:50]))
            continue
        counts[prop] = counts.get(prop, 0) + 1
        sid = f"own-{prop}-{counts[prop]}"
        d = os.path.join(VERIF, "seeded", sid)
        if os.path.exists(d):
            continue
        os.makedirs(d)
        mod = os.path.join(base, path + ".new")
        out = src
        for o, n_ in pairs:
            out = out.replace(o, n_)
        open(mod, "w").write(out)
        p = subprocess.run(["diff", "-u", "--label", "a/" + path, "--label", "b/" + path, os.path.join(base, path), mod], stdout=subprocess.PIPE)
        open(os.path.join(d, "patch.diff"), "wb").write(p.stdout)
        os.remove(mod)
        json.dump(dict(id=sid, property=prop, source="hand-written (DESIGN.md §8)", needs=needs, verified=False), open(os.path.join(d, "meta.json"), "w"), indent=1)
        print("wrote", sid)
    shutil.rmtree(base, ignore_errors=True)


if __name__ == "__main__":
    main()
