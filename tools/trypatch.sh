#!/bin/bash
# dev tool: tools/trypatch.sh <seeded-id> <CHECK> [tier] -- run one check against a scratch copy of /repo HEAD + seeded patch
set -u
sid=$1; chk=$2; tier=${3:-quick}
d=/tmp/eg_try_${sid}_$$
rm -rf $d; mkdir -p $d
git -C /repo archive HEAD | tar -x -C $d
(cd $d && patch -s -p1 < /verif/seeded/$sid/patch.diff) || { echo "patch failed"; rm -rf $d; exit 3; }
cd /verif
VERIF_REPO=$d VERIF_NO_EVIDENCE=1 ./run.py $chk --tier $tier 2>&1 | grep -E "^VIOLATION|kind=|violations=|HARNESS" | head -8
rm -rf $d
