#!/venv/bin/python
"""Regenerate /verif/MANIFEST.json from the check modules (run from /verif)."""
import importlib
import json
import os
import sys

HERE = os.path.dirname(os.path.dirname(os.path.abspath(__file__)))
sys.path.insert(0, HERE)
os.environ.setdefault("PYTHONDONTWRITEBYTECODE", "1")
from eglib import driver  # noqa

driver.setup_paths()

props = [json.loads(l) for l in open(os.path.join(HERE, "properties.jsonl"))]
checks, na = [], []
for p in props:
    pid = p["id"]
    path = os.path.join(HERE, "checks", pid.lower() + ".py")
    if not os.path.exists(path):
        na.append(dict(property_id=pid, reason="check not built yet (work in progress; the design in DESIGN.md §3 applies)"))
        continue
    m = importlib.import_module("checks." + pid.lower())
    checks.append(
        dict(
            property_id=pid,
            quick_cmd=f"./run.py {pid} --tier quick",
            thorough_cmd=f"./run.py {pid} --tier thorough",
            evidence_file=f"evidence/{pid}.json",
            replay_cmd_template=f"./run.py {pid} --replay {{path}}",
            engine="eglib-pbt",
            level_claimed=dict(category=m.LEVEL, text=m.LEVEL_TEXT, design_ref=m.DESIGN_REF),
            level_note=m.LEVEL_NOTE,
            technique=m.TECHNIQUE,
        )
    )
fixes = [l.split()[2] for l in open(os.path.join(HERE, "known_findings.txt")) if l.startswith("fixed:")] if os.path.exists(os.path.join(HERE, "known_findings.txt")) else []
manifest = dict(
    version=1,
    setup_cmd="./setup.sh",
    hooks=dict(
        guard="EDGEGRAPH_VERIF",
        enable="no hooks are needed: checks import /repo's working tree directly (VERIF_REPO, default /repo) and observe it through public accessors and vars(); nothing in /repo reads EDGEGRAPH_VERIF",
        baseline_off_cmd="cd /repo && /venv/bin/python -m pytest -ra -q -p no:cacheprovider --timeout=900 --continue-on-collection-errors",
        source_commits=[],
        add_only=True,
    ),
    engines=[
        dict(
            name="eglib-pbt",
            path="eglib/driver.py",
            serves_properties=[c["property_id"] for c in checks],
            kind_free_text="Hypothesis 6.168 generated-input search over plain-data cases (op-list histories, graph descriptions, fault plans) + bounded-exhaustive small-scope enumeration + saved-corpus replay, sharded over 16 processes; explicit oracles (reference model, differential, metamorphic, parse-back, round-trip); shrunk failing case is the replay file",
        )
    ],
    checks=checks,
    notes="All commands run from /verif with /venv/bin/python; VERIF_SEED and VERIF_TIER are honoured; exit 2 = harness error. Genuine defects found and repaired are the 'fix:' commits in /repo listed as 'fixed:' lines in known_findings.txt; open findings are 'open:' lines there.",
    not_applicable=na,
)
with open(os.path.join(HERE, "MANIFEST.json"), "w") as f:
    json.dump(manifest, f, indent=1)
    f.write("\n")
print("MANIFEST.json:", len(checks), "checks,", len(na), "not yet claimed")
