"""
Reference model of the structure API on plain ints/lists (no edgegraph import).

Semantics are taken from the statements of C02/C03 and the docstrings (see
DESIGN.md §2.3), *not* from the implementation.
"""


class ModelRaises(Exception):
    """The model expects the call to raise (and to change nothing)."""


class Model:
    def __init__(self, nv, uidx):
        self.links_of = [[] for _ in range(nv)]
        self.unis_of = [[] for _ in range(nv)]
        self.ends = []          # per link: list of vertex idx / None
        self.cls = []           # per link: class index into classes.LINK_CLASSES
        self.members = {u: [] for u in uidx}
        self.nbulk = 0

    # -- helpers
    def _attach(self, v, l):
        if v is not None and l not in self.links_of[v]:
            self.links_of[v].append(l)

    def _new_link(self, ci, a, b):
        l = len(self.ends)
        self.ends.append([a, b])
        self.cls.append(ci)
        self._attach(a, l)
        self._attach(b, l)
        return l

    def _new_vertex(self):
        self.links_of.append([])
        self.unis_of.append([])
        return len(self.links_of) - 1

    def joining(self, a, b):
        """
        Links that join a and b, in a.links order: a link's two ENDS are its first two listed vertices
        (v1, v2); vertices listed beyond them (Link.add_vertex) are associated with the link but are not ends.
        """
        out = []
        for l in self.links_of[a]:
            e = self.ends[l]
            if len(e) >= 2 and ((e[0] == a and e[1] == b) or (e[1] == a and e[0] != a and e[0] == b)):
                out.append(l)
        return out

    # -- the calls; each returns a description of the expected return value
    def apply(self, r):
        name = r[0]
        if name == "edge":
            return ("newlink", self._new_link(r[1], r[2], r[3]))
        if name == "edge_bad":
            raise ModelRaises("TypeError")
        if name in ("v1", "v2"):
            l, x = r[1], r[2]
            pos = 0 if name == "v1" else 1
            e = self.ends[l]
            assert len(e) >= 2, "model precondition: link lists at least two vertices"
            old = e[pos]
            e[pos] = x
            if old is not None and old not in e:
                self.links_of[old].remove(l)
            self._attach(x, l)
            return ("none",)
        if name == "link":
            _, fn, a, b, dd, ci = r
            ci = {"link_directed": 0, "link_undirected": 1}.get(fn, ci)
            if dd:
                j = self.joining(a, b)
                if j:
                    return ("oneof", j)
            return ("newlink", self._new_link(ci, a, b))
        if name == "unlink":
            _, a, b, destroy = r
            rem = self.joining(a, b)
            for l in rem:
                # every listing of a and of b goes; vertices listed beyond the two ends stay associated
                self.ends[l] = [x for x in self.ends[l] if x not in (a, b)]
                for x in {a, b}:
                    self.links_of[x].remove(l)
            return ("none",) if (destroy or destroy is None) else ("set", rem)     # destroy omitted: the default, True
        if name == "uf":
            # Link.unlink_from(x): the link no longer lists x (any listing of it) and x no longer lists the link;
            # unlink_from(None) drops one unassigned end
            _, l, x = r
            e = self.ends[l]
            if x is None:
                if None in e:
                    e.remove(None)
            elif x in e:
                self.ends[l] = [y for y in e if y != x]
                self.links_of[x].remove(l)
            return ("none",)
        if name == "av":
            # Link.add_vertex: the vertex is appended to the link's vertices (even if already listed) and the
            # link is attached to it unless it already is
            _, l, x = r
            self.ends[l].append(x)
            self._attach(x, l)
            return ("none",)
        if name == "bulk_av":
            _, l, x, K = r
            for _ in range(K):
                self.ends[l].append(x)
            self._attach(x, l)
            return ("none",)
        if name == "bulk":
            _, a, b, ci, K = r
            for _ in range(K):
                self._new_link(ci, a, b)
            return ("none",)
        if name == "bulk_u":
            _, u, K = r
            for _ in range(K):
                self.members[u].append("b%d" % self.nbulk)
                self.nbulk += 1
            return ("none",)
        if name == "newu_big":
            n = self._new_vertex()
            self.members[n] = []
            for _ in range(r[2]):
                self.members[n].append("b%d" % self.nbulk)
                self.nbulk += 1
            for v in r[1]:
                self.members[n].append(v)
                self.unis_of[v].append(n)
            return ("newvertex", n)
        if name == "churn":
            _, u, K = r
            for _ in range(K):
                if not self.members[u]:
                    break
                m = self.members[u].pop(0)
                self.members[u].append(m)
                if not isinstance(m, str):
                    self.unis_of[m].remove(u)
                    self.unis_of[m].append(u)
            return ("none",)
        if name in ("ua", "va"):
            u, v = r[1], r[2]
            if v not in self.members[u]:
                self.members[u].append(v)
                self.unis_of[v].append(u)
            return ("none",)
        if name in ("ur", "vr"):
            u, v = r[1], r[2]
            if v not in self.members[u]:
                raise ModelRaises("any")
            self.members[u].remove(v)
            self.unis_of[v].remove(u)
            return ("none",)
        if name == "newv_u":
            n = self._new_vertex()
            for u in dict.fromkeys(r[1]):
                self.members[u].append(n)
                self.unis_of[n].append(u)
            return ("newvertex", n)
        if name == "newv_u2":
            for _ in range(2):
                n = self._new_vertex()
                for u in r[1]:
                    self.members[u].append(n)
                    self.unis_of[n].append(u)
            return ("none",)
        if name == "lawsnone":
            return ("none",)
        if name == "newu2":
            for _ in range(2):
                n = self._new_vertex()
                self.members[n] = []
                for v in r[1]:
                    self.members[n].append(v)
                    self.unis_of[v].append(n)
            return ("none",)
        if name == "newu":
            n = self._new_vertex()
            self.members[n] = []
            for v in dict.fromkeys(r[1]):
                self.members[n].append(v)
                self.unis_of[v].append(n)
            return ("newvertex", n)
        raise ValueError(name)

    def snapshot(self):
        return {
            "links_of": [list(x) for x in self.links_of],
            "unis_of": [list(x) for x in self.unis_of],
            "ends": [list(x) for x in self.ends],
            "members": {str(u): list(m) for u, m in self.members.items()},
        }


# ---------------------------------------------------------------------------
# Abstract graphs and reference algorithms (C04, C06-C09, C11, C16)
# ---------------------------------------------------------------------------

FORWARD, ANY, BACKWARD = 0, 1, 2
NONNEIGHBOR, NEIGHBOR, ERROR = 0, 1, 2


class RefNotImplemented(Exception):
    pass


class AbstractGraph:
    """links_of[v] = link ids in v.links order; link[l] = (kind, v1, v2)."""

    def __init__(self, links_of, link):
        self.links_of = links_of
        self.link = link

    @classmethod
    def from_real(cls, vs, ls, kind_of):
        vi = {id(v): i for i, v in enumerate(vs)}
        li = {id(l): i for i, l in enumerate(ls)}
        links_of = [[li[id(l)] for l in v.links] for v in vs]
        link = []
        for l in ls:
            e = l.vertices
            link.append((kind_of(l), vi.get(id(e[0])) if len(e) > 0 and e[0] is not None else None,
                         vi.get(id(e[1])) if len(e) > 1 and e[1] is not None else None))
        return cls(links_of, link)


def ref_follow(kind, a, b, v, d, unk):
    """Does a link (kind, a, b) at vertex v qualify under direction d / unknown handling?"""
    if d == ANY:
        return True
    if kind == "U":
        return True
    if kind == "D":
        return (a == v) if d == FORWARD else (b == v)
    if unk == NONNEIGHBOR:
        return False
    if unk == NEIGHBOR:
        return True
    raise RefNotImplemented()


def ref_neighbors(G, v, d=FORWARD, unk=ERROR, f=None, lenient=None):
    """
    The C04 decision table, link by link in links_of[v] order.
    f(l, other) -> bool is a filter over (link id, vertex id).
    If `lenient` is a list, an ERROR-mode unknown link that the filter rejects
    is recorded there instead of raising (the statement fixes neither outcome).
    """
    out = []
    for l in G.links_of[v]:
        kind, a, b = G.link[l]
        o = b if a == v else a
        try:
            q = ref_follow(kind, a, b, v, d, unk)
        except RefNotImplemented:
            if lenient is not None and f is not None and not f(l, o):
                lenient.append(l)
                continue
            raise
        if q and (f is None or f(l, o)):
            out.append(o)
    return out


def ref_find_links(G, a, b, ds=True, unk=ERROR, f=None, lenient=None):
    out = set()
    for l in G.links_of[a]:
        kind, x, y = G.link[l]
        o = y if x == a else x
        if o != b:
            continue
        if not ds:
            q = True
        elif kind == "U":
            q = True
        elif kind == "D":
            q = x == a
        elif unk == NONNEIGHBOR:
            q = False
        elif unk == NEIGHBOR:
            q = True
        else:
            if lenient is not None and f is not None and not f(l):
                lenient.append(l)
                continue
            raise RefNotImplemented()
        if q and (f is None or f(l)):
            out.add(l)
    return out


def ref_reach(G, s, mem, d, unk, f):
    """Least fixpoint; deliberately not a BFS/DFS."""
    R = {s}
    changed = True
    while changed:
        changed = False
        for x in sorted(R):
            for w in ref_neighbors(G, x, d, unk, f):
                if (mem is None or w in mem) and w not in R:
                    R.add(w)
                    changed = True
    return R


def ref_bfs(G, s, mem, d, unk, f):
    out = [s]
    i = 0
    while i < len(out):
        for w in ref_neighbors(G, out[i], d, unk, f):
            if (mem is None or w in mem) and w not in out:
                out.append(w)
        i += 1
    return out


def ref_dfs_pre(G, s, mem, d, unk, f):
    out = []

    def rec(x):
        out.append(x)
        for w in ref_neighbors(G, x, d, unk, f):
            if (mem is None or w in mem) and w not in out:
                rec(w)

    rec(s)
    return out


def ref_dfs_pre_iter(G, s, mem, d, unk, f):
    """Recursive pre-order computed WITHOUT recursion (explicit stack of neighbour iterators), for deep graphs."""
    out = [s]
    seen = {s}
    stack = [iter(ref_neighbors(G, s, d, unk, f))]
    while stack:
        for w in stack[-1]:
            if (mem is None or w in mem) and w not in seen:
                seen.add(w)
                out.append(w)
                stack.append(iter(ref_neighbors(G, w, d, unk, f)))
                break
        else:
            stack.pop()
    return out


def ref_dfs_stack(G, s, mem, d, unk, f):
    out = []
    stack = [s]
    while stack:
        x = stack.pop()
        if x in out or (mem is not None and x not in mem):
            continue
        out.append(x)
        stack.extend(ref_neighbors(G, x, d, unk, f))
    return out
