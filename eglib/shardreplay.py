"""
Re-run one worker shard of a check in a FRESH interpreter and print the violation kinds it finds (JSON).

    python -m eglib.shardreplay <check> <tier> <seed> <shard> <nshards>

A shard's sequence of cases is a pure function of (code, tier, seed, shard); a violation that depends on state the
library keeps between cases (module-level memos, class-level registries) does not reproduce from its case alone, but
it does reproduce when the shard is re-run.
"""
import json
import os
import sys


def main():
    here = os.path.dirname(os.path.dirname(os.path.abspath(__file__)))
    sys.path.insert(0, here)
    from eglib import driver

    modname, tier, seed, shard, nshards = sys.argv[1].lower(), sys.argv[2], int(sys.argv[3]), int(sys.argv[4]), int(sys.argv[5])
    r = driver._worker((modname, tier, seed, shard, nshards, None))
    out = {k: dict(detail=str(v[1])[:600]) for k, v in r["failures"].items()}
    print("SHARDREPLAY " + json.dumps(dict(kinds=out, harness_errors=r["harness_errors"][:1])))


if __name__ == "__main__":
    main()
