"""
Plain-data multigraph descriptions, their materialisation, filters as truth
tables, and Hypothesis strategies for them.

desc = {"nv": n, "vcls": [k,...] | None,
        "edges": [[cls, a, b], ...],              # link class index, end indices (mod nv)
        "reassign": [[l, end, j], ...]}           # a few end re-assignments to diversify link order
"""
from hypothesis import strategies as st


def build(desc):
    """-> (vs, ls) real objects."""
    from eglib import classes as C

    nv = desc["nv"]
    vcls = desc.get("vcls")
    vuid = desc.get("vuid")
    if desc.get("eq"):
        vs = [C.EqVertex(attributes={"i": i}) for i in range(nv)]
    elif vuid:
        # explicit, possibly REPEATED vertex uids (e.g. a clone of a graph linked behind its original)
        nvc = len(C.VERTEX_CLASSES) if desc.get("wide") else 4
        vs = [(C.VERTEX_CLASSES[vcls[i % len(vcls)] % nvc] if vcls else C.Vertex)(uid=100 + vuid[i % len(vuid)], attributes={"i": i}) for i in range(nv)]
    else:
        nvc = len(C.VERTEX_CLASSES) if desc.get("wide") else 4
        vs = [C.make_vertex(i, None if not vcls else C.VERTEX_CLASSES[vcls[i % len(vcls)] % nvc]) for i in range(nv)]
    nlc = len(C.LINK_CLASSES) if desc.get("wide") else 6
    luid = desc.get("luid")
    if luid:
        # explicit (and possibly REPEATED) uids: distinct objects may legally carry equal uids
        ls = [C.LINK_CLASSES[c % nlc](vs[a % nv], vs[b % nv], uid=1 + luid[k % len(luid)]) for k, (c, a, b) in enumerate(desc["edges"])]
    else:
        ls = [C.LINK_CLASSES[c % nlc](vs[a % nv], vs[b % nv]) for c, a, b in desc["edges"]]
    la = desc.get("lattrs")
    if la:
        names = ["kind", "type", "id", "directed", "label", "weight", "name", "undirected"]
        for k, l in enumerate(ls):
            sel = la[k % len(la)]
            setattr(l, names[sel % len(names)], ["road", None, 0, True, "directed", "undirected", 2.5, k][(sel // 3) % 8])
    for l, end, j in desc.get("reassign", ()):
        if ls:
            if end:
                ls[l % len(ls)].v2 = vs[j % nv]
            else:
                ls[l % len(ls)].v1 = vs[j % nv]
    sc = desc.get("scale")
    if sc and not desc.get("eq"):
        _apply_scale(sc, vs, ls, nv, C)
    nest = desc.get("nest")
    if nest:
        # a graph of graphs: every vertex that is itself a Universe CONTAINS some of the other (linked) vertices
        for i, v in enumerate(vs):
            if isinstance(v, C.Universe):
                for n in nest:
                    v.add_vertex(vs[(i + 1 + n) % nv])
    return vs, ls


def _apply_scale(sc, vs, ls, nv, C):
    """
    Scale a small graph up (appends to vs / ls; the first nv vertices are the original ones):
      "hub":   [v, K, c, loop]  vs[v] gets K further links to K-5 fresh leaf vertices (the first five leaves get a
               second, non-adjacent parallel link at the end), classes cycling from c through directed /
               undirected (sub)classes, every third one pointing AT the hub; loop 1 / 2: a directed / undirected
               self-loop on the hub in the middle of them
      "chain": [D, v, c]        D fresh vertices c0 -> c1 -> ... -> c(D-1) -> vs[v] (directed, or undirected for odd c);
               with both and hub c >= 2 the hub is c0 instead of vs[v]
    Order of vs afterwards: original, hub leaves, chain.
    """
    hub, ch = sc.get("hub"), sc.get("chain")
    cs = []
    if ch:
        D, cv, cc = ch
        cs = [C.Vertex(attributes={"i": 6000 + n}) for n in range(D)]
    if hub:
        v, K, c, loop = hub
        # with a chain present and c >= 2 the many links sit on the HEAD of the chain (the traversal's start vertex)
        h = cs[0] if (cs and c >= 2) else vs[v % nv]
        nleaf = max(1, K - 5)
        leaves = [C.Vertex(attributes={"i": 3000 + n}) for n in range(nleaf)]
        vs.extend(leaves)
        for n in range(K):
            if loop and n == K // 2:
                ls.append((C.DirectedEdge if loop == 1 else C.UnDirectedEdge)(h, h))
            leaf = leaves[n % nleaf]
            E = C.LINK_CLASSES[(c + n) % 4]
            ls.append(E(leaf, h) if n % 3 == 2 else E(h, leaf))
    if ch:
        E = C.UnDirectedEdge if cc % 2 else C.DirectedEdge
        vs.extend(cs)
        for n in range(D - 1):
            ls.append(E(cs[n], cs[n + 1]))
        ls.append(E(cs[-1], vs[cv % nv]))


def scale_layout(desc):
    """-> (range of hub-leaf indices, range of chain indices) in the vs returned by build(desc)."""
    nv = desc["nv"]
    sc = desc.get("scale") or {}
    nleaf = max(1, sc["hub"][1] - 5) if sc.get("hub") else 0
    D = sc["chain"][0] if sc.get("chain") else 0
    return range(nv, nv + nleaf), range(nv + nleaf, nv + nleaf + D)


def scales(hubs=(65, 70, 130), chains=(260, 300), rate=30):
    """Strategy for the optional "scale" entry of a graph description: None in (rate-1)/rate of the cases."""
    hub = st.tuples(st.integers(0, 7), st.sampled_from(list(hubs)), st.integers(0, 3), st.integers(0, 2)).map(list) if hubs else st.none()
    chain = st.tuples(st.sampled_from(list(chains)), st.integers(0, 7), st.integers(0, 1)).map(list) if chains else st.none()
    some = st.one_of(
        st.builds(lambda h: {"hub": h}, hub) if hubs else st.nothing(),
        st.builds(lambda c: {"chain": c}, chain) if chains else st.nothing(),
        st.builds(lambda h, c: {"hub": h, "chain": c}, hub, chain) if (hubs and chains) else st.nothing(),
    )
    return st.integers(0, rate - 1).flatmap(lambda r: some if r == 0 else st.none())


def with_scale(descs, **kw):
    """Graph descriptions, a few of them scaled up."""
    return st.builds(lambda g, sc: dict(g, scale=sc) if sc else g, descs, scales(**kw))


def copied(vs, ls, extra=None, how=0):
    """
    A copy of an (already queried) world: how 0 -> copy.deepcopy, 1 -> pickle round trip, 2 -> nrpickler/dill.
    Whatever earlier queries memoised on the objects travels with them.  -> (vs', ls', extra')
    """
    import copy
    import pickle

    bundle = (list(vs), list(ls), extra)
    import dill

    if len(bundle[0]) > 200:
        how = 2     # a scaled-up (possibly very deep) world: deepcopy and pickle recurse per reference, nrpickler does not

    try:
        if how % 3 == 0:
            return copy.deepcopy(bundle)
        if how % 3 == 1:
            try:
                return pickle.loads(pickle.dumps(bundle))
            except (AttributeError, pickle.PicklingError, TypeError):
                # warm neighbor caches may be keyed by this harness's local filter closures, which only dill can pickle
                return dill.loads(dill.dumps(bundle))
    except RecursionError:
        pass    # a deep (scaled-up) world: deepcopy and pickle recurse per reference; the library's pickler does not
    from edgegraph.output import nrpickler

    return dill.loads(nrpickler.dumps(bundle))


def abstract(vs, ls):
    from eglib import classes as C
    from eglib.model import AbstractGraph

    return AbstractGraph.from_real(vs, ls, C.kind_of)


class FilterMisuse(Exception):
    """The library called a user filter in a way its documentation does not allow."""


def make_filter(spec):
    """
    spec: None | {"ft": "pair"|"edge", "mask": int}
    -> f(l, o) on ints (or None).  Pure truth table over (link id, vertex id).
    """
    if spec is None:
        return None
    mask = spec["mask"]
    if spec["ft"] == "edge":
        return lambda l, o=None: (mask >> (l % 16)) & 1 == 1
    return lambda l, o=0: (mask >> ((l * 3 + (-1 if o is None else o)) % 16)) & 1 == 1   # o None: unassigned end


def real_filter2(f, vi, li, falsy=False):
    """filterfunc(edge, vertex) for neighbors()/ff_via from an int filter."""
    if f is None:
        return None
    fn = lambda e, v: f(li[id(e)], vi.get(id(v), -1))    # v is None for a link with an unassigned end
    if falsy:
        from eglib import classes as C

        return C.FalsyFilter(fn)
    return fn


def real_filter1(f, li, falsy=False, defaulted=False):
    """filterfunc(edge) for find_links()."""
    if f is None:
        return None
    if defaulted:
        # a legal one-argument filter that happens to have a second, defaulted positional parameter
        def fn(e, extra=None):
            if extra is not None:
                raise FilterMisuse("a one-argument find_links filter was called with a second argument")
            return f(li[id(e)])
    else:
        fn = lambda e: f(li[id(e)])
    if falsy:
        from eglib import classes as C

        return C.FalsyFilter(fn)
    return fn


def is_falsy(spec):
    return bool(spec and spec.get("falsy"))


_masks = st.one_of(
    st.sampled_from([0, 0xFFFF]),
    st.integers(0, 0xFFFF),
    st.integers(0, 15).map(lambda k: 0xFFFF ^ (1 << k)),
    st.tuples(st.integers(0, 15), st.integers(0, 15)).map(lambda t: 0xFFFF ^ (1 << t[0]) ^ (1 << t[1]) if t[0] != t[1] else 0xFFFF ^ (1 << t[0])),
)

filter_specs = st.one_of(
    st.none(),
    st.builds(lambda ft, m: {"ft": ft, "mask": m}, st.sampled_from(["pair", "edge"]), _masks),
)

# neighbors()/find_links() filterfunc only: the filter may be a callable OBJECT that is falsy
filter_specs_objs = st.one_of(
    st.none(),
    st.builds(lambda ft, m, fz: {"ft": ft, "mask": m, "falsy": fz}, st.sampled_from(["pair", "edge"]), _masks, st.booleans()),
)

edge_filter_specs = st.one_of(
    st.none(),
    st.builds(lambda m, fz: {"ft": "edge", "mask": m, "falsy": fz}, _masks, st.booleans()),
)


def eq_graph_descs(max_v=5, max_e=8):
    """Graphs over value-equal vertices, built by constructors only."""
    return st.builds(
        lambda nv, edges: {"nv": nv, "vcls": None, "eq": True, "edges": [[c, a % nv, b % nv] for c, a, b in edges], "reassign": []},
        st.integers(2, max_v),
        st.lists(st.tuples(st.integers(0, 5), st.integers(0, max_v - 1), st.integers(0, max_v - 1)), min_size=1, max_size=max_e),
    )


def graph_descs(max_v=8, max_e=14, classes=6, vcls=True, max_reassign=3, min_v=1, min_e=0, wide=False):
    cls = st.integers(0, classes - 1)

    def mk(nv, edges, reassign, vc, luid=None, vuid=None, lattrs=None, nest=None):
        return {
            **({"nest": nest} if nest and wide else {}),
            **({"lattrs": lattrs} if lattrs else {}),
            **({"wide": True} if wide else {}),
            **({"luid": luid} if luid else {}),
            **({"vuid": vuid} if vuid else {}),
            "nv": nv,
            "vcls": vc,
            "edges": [[c, a % nv, b % nv] for c, a, b in edges],
            "reassign": [[l, int(e), j % nv] for l, e, j in reassign],
        }

    return st.builds(
        mk,
        st.integers(min_v, max_v),
        st.lists(st.tuples(cls, st.integers(0, max_v - 1), st.integers(0, max_v - 1)), min_size=min_e, max_size=max_e),
        st.lists(st.tuples(st.integers(0, max_e - 1), st.booleans(), st.integers(0, max_v - 1)), max_size=max_reassign),
        (st.one_of(st.none(), st.lists(st.integers(0, 9 if wide else 3), min_size=1, max_size=4)) if vcls else st.none()),
        st.one_of(st.none(), st.none(), st.none(), st.lists(st.integers(0, 3), min_size=1, max_size=3)),
        st.one_of(st.none(), st.none(), st.none(), st.lists(st.integers(0, 3), min_size=1, max_size=3)),
        st.one_of(st.none(), st.none(), st.lists(st.integers(0, 23), min_size=1, max_size=3)),
        (st.one_of(st.none(), st.lists(st.integers(0, 6), min_size=1, max_size=3)) if wide else st.none()),
    )
