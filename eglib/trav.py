"""
Shared machinery for the traversal properties C06 / C07 / C08.

Case: {"g": graph desc, "uni": None | [member idx,...], "start": s,
       "d": 0..2, "u": 0..2, "via": filter spec | None, "res": int mask | None}
"""
from eglib import h
import contextlib

from hypothesis import strategies as st

from eglib import graphs
from eglib.driver import Violation
from eglib.model import ANY, ERROR, NONNEIGHBOR, ref_neighbors, ref_reach


def cases(max_v=8, max_e=14, classes=6, settings=True, big=False, scale_rate=None):
    def mk(g, uni, s, d, u, via, res, cache=False, pad=0, swap=None, take=0, none_ends=(), scale=None):
        nv = g["nv"]
        if scale and not g.get("eq"):
            # a scaled-up world: a long chain in front of the start vertex and / or a vertex with very many links
            g = dict(g, scale=scale)
            if uni is not None:
                u0 = list(dict.fromkeys(x % nv for x in uni)) or [s % nv]
                s0 = u0[s % len(u0)]
            else:
                s0 = s % nv
            if scale.get("chain"):
                scale["chain"][1] = s0     # the chain leads to the start vertex
            if scale.get("hub"):
                scale["hub"][0] = s0       # ... and the start vertex is the one with very many links
        if uni is not None:
            uni = list(dict.fromkeys(x % nv for x in uni)) or [s % nv]
            start = uni[s % len(uni)]
        else:
            start = s % nv
        return {"g": g, "uni": uni, "start": start, "d": d, "u": u, "via": via, "res": res, "cache": cache,
                "pad": pad if uni is not None else 0, "swap": list(swap) if (swap and uni is not None) else None, "take": take,
                # links with an UNASSIGNED end (None): only together with a universe (None is never a member, so the
                # traversal has something that tells it not to walk into it)
                "none_ends": [list(x) for x in none_ends] if uni is not None else []}

    return st.builds(
        mk,
        st.one_of(graphs.graph_descs(max_v, max_e, classes),
                  graphs.graph_descs(max_v, max_e, classes, min_v=3, min_e=4),
                  graphs.graph_descs(max_v, max_e, min(classes, 4), min_v=4, min_e=6),
                  # the wider vertex-class pool: a vertex class overriding the public `links` view, universes used as
                  # plain vertices, a class caching for itself, ...
                  graphs.graph_descs(max_v, max_e, 12 if classes >= 6 else classes, min_v=2, min_e=2, wide=True)),
        st.one_of(st.none(), st.lists(st.integers(0, max_v - 1), min_size=1, max_size=max_v)),
        st.integers(0, 7),
        st.integers(0, 2) if settings else st.just(0),
        st.integers(0, 2) if settings else st.just(2),
        graphs.filter_specs if settings else st.none(),
        st.one_of(st.none(), st.integers(0, 255)) if settings else st.none(),
        st.booleans(),
        # universe padded with isolated members (size-dependent code paths), a later membership swap
        # (same size: one member out, one non-member in), and a split point for interleaved generators
        st.sampled_from([0] * 50 + [40] * 6 + [1000]),
        st.one_of(st.none(), st.tuples(st.integers(0, 7), st.integers(0, 7))),
        st.integers(0, 4),
        st.one_of(st.just(()), st.just(()), st.lists(st.tuples(st.integers(0, 13), st.integers(0, 1)), min_size=1, max_size=2)),
        graphs.scales(hubs=(70, 340, 1300) if big else (70, 340), chains=(260, 300), rate=scale_rate or (40 if big else 80)),
    )


class Setup:
    def __init__(self, case):
        from edgegraph.structure import Universe

        self.case = case
        self.vs, self.ls = graphs.build(case["g"])
        for k, end in case.get("none_ends") or ():
            if self.ls:
                if end:
                    self.ls[k % len(self.ls)].v2 = None
                else:
                    self.ls[k % len(self.ls)].v1 = None
        self.G = graphs.abstract(self.vs, self.ls)
        self.vi = {id(v): i for i, v in enumerate(self.vs)}
        self.li = {id(l): i for i, l in enumerate(self.ls)}
        if case["uni"] is None:
            self.uni, self.mem = None, None
        else:
            from edgegraph.structure import Vertex

            self.pad = [Vertex(attributes={"i": 10000 + k}) for k in range(case.get("pad", 0))]
            leaves, chain = graphs.scale_layout(case["g"])
            # the added chain always belongs to the universe, the added hub leaves in every other case
            extra = list(chain) + (list(leaves) if len(case["uni"]) % 2 else [])
            self.uni = Universe(vertices=[self.vs[m] for m in case["uni"]] + [self.vs[i] for i in extra] + self.pad)
            self.mem = set(case["uni"]) | set(extra)
        self.start = case["start"]
        chain = graphs.scale_layout(case["g"])[1]
        if len(chain):
            self.start = chain[0]       # start at the far end of the chain: the generated graph lies >= 260 levels deep
        self.d, self.u = case["d"], case["u"]
        self.f = graphs.make_filter(case["via"])
        self.ff = graphs.real_filter2(self.f, self.vi, self.li)
        res = case["res"]
        self.rf_int = None if res is None else (lambda i: (res >> (i % 8)) & 1 == 1)
        if res is None:
            self.rf = None
        elif case.get("take", 0) % 2:
            # a well-behaved ff_result need not answer with a bool: None (e.g. from re.match / dict.get) means no,
            # any truthy object means yes
            self.rf = lambda v: ("yes" if self.rf_int(self.vi[id(v)]) else None)
        else:
            self.rf = lambda v: self.rf_int(self.vi[id(v)])
        if case.get("take", 0) >= 3 and self.ls:
            # links are BaseObjects and may themselves be catalogued in universes - unrelated ones here; the
            # traversals' `uni` argument speaks about VERTICES only
            other = Universe()
            self.ls[0].add_to_universe(other)
            self.ls[-1].add_to_universe(Universe())
            self.link_universes = [other]

    def apply_swap(self):
        """
        Second phase: one member leaves the universe and one non-member joins (size unchanged, no link touched).
        -> True if the world changed and the oracles should be evaluated again.
        """
        sw = self.case.get("swap")
        if not sw or self.uni is None:
            return False
        members = [m for m in sorted(self.mem)]
        outside = [i for i in range(len(self.vs)) if i not in self.mem]
        if not members or not outside:
            return False
        out_v = members[sw[0] % len(members)]
        in_v = outside[sw[1] % len(outside)]
        self.uni.remove_vertex(self.vs[out_v])
        self.uni.add_vertex(self.vs[in_v])
        self.mem = (self.mem - {out_v}) | {in_v}
        if self.start == out_v:
            self.start = in_v
        return True

    def replace_by_copy(self, how):
        """Swap the (already queried) world for a deepcopy / pickle / nrpickler copy of itself."""
        vs, ls, uni = graphs.copied(self.vs, self.ls, self.uni, how)
        self.vs, self.ls, self.uni = vs, ls, uni
        self.vi = {id(v): i for i, v in enumerate(self.vs)}
        self.li = {id(l): i for i, l in enumerate(self.ls)}
        self.ff = graphs.real_filter2(self.f, self.vi, self.li)
        return True

    def fresh_method_ff(self, accept_all=False):
        """Like fresh_ff, but the callable is a bound method of a freshly configured object of ONE class."""
        from eglib import classes as C

        f, vi, li = self.f, self.vi, self.li
        if f is None and not accept_all:
            return None
        if accept_all:
            return C.MethodFilter(lambda e, v: True).accept
        return C.MethodFilter(lambda e, v: f(li[id(e)], vi.get(id(v), -1))).accept

    def fresh_ff(self, accept_all=False):
        """A new short-lived ff_via callable at every call (same truth table unless accept_all)."""
        # both kinds of filter are closures made by ONE factory (same code object, different closed-over
        # behaviour): a cache keyed by the code object rather than by the callable would confuse them
        f, vi, li = self.f, self.vi, self.li
        if f is None and not accept_all:
            return None

        def make(fn):
            return lambda e, v: fn(e, v)

        if accept_all:
            return make(lambda e, v: True)
        return make(lambda e, v: f(li[id(e)], vi.get(id(v), -1)))

    def kw(self, res=False):
        k = h.kw(self.d, self.u, ff_via=self.ff)
        if res:
            k["ff_result"] = self.rf
        return k

    def idx(self, seq):
        out = [self.vi.get(id(x), "?") for x in seq]
        h.spoil(seq)        # a returned listing is the caller's to modify
        return out

    def expectation(self):
        """
        -> ("raise", None) | ("either", R) | ("ok", R):  does the reference
        say the traversal raises NotImplementedError; R = reachable set.
        """
        G, s, mem, d, u, f = self.G, self.start, self.mem, self.d, self.u, self.f
        if u != ERROR or d == ANY:
            return "ok", ref_reach(G, s, mem, d, u, f)
        R0 = ref_reach(G, s, mem, d, NONNEIGHBOR, f)
        hard = soft = False
        for x in R0:
            for l in G.links_of[x]:
                kind, a, b = G.link[l]
                if kind == "X":
                    o = b if a == x else a
                    if f is not None and not f(l, o):
                        soft = True
                    else:
                        hard = True
        if hard:
            return "raise", None
        if soft:
            return "either", R0
        return "ok", R0


@contextlib.contextmanager
def neighbor_budget(limit):
    """
    Deterministic step budget: a terminating traversal of n vertices has no
    reason to call helpers.neighbors() more than a few times per vertex; the
    callers pass a generous quadratic limit, so exceeding it means the
    traversal is not terminating (or re-expanding vertices without end).
    """
    from edgegraph.traversal import breadthfirst, depthfirst, helpers

    real = helpers.neighbors
    count = [0]

    def counting(*a, **k):
        count[0] += 1
        if count[0] > limit:
            raise Violation("non-termination", f"helpers.neighbors() called more than {limit} times by one traversal")
        return real(*a, **k)

    helpers.neighbors = counting
    try:
        yield count
    finally:
        helpers.neighbors = real


@contextlib.contextmanager
def caching(on):
    from edgegraph.structure import Vertex

    Vertex.NEIGHBOR_CACHING = bool(on)
    try:
        yield
    finally:
        Vertex.NEIGHBOR_CACHING = False


def bounded_list(gen, limit, what):
    out = []
    for x in gen:
        out.append(x)
        if len(out) > limit:
            raise Violation("non-termination", f"{what} yielded more than {limit} vertices")
    return out
