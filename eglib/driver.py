"""
Driver shared by all property checks.

A check module (checks/cXX.py) provides

    ID, LEVEL, RULE, ASSUMPTIONS, DESIGN_REF
    strategy(tier)            -> hypothesis strategy of plain-data cases
    check_case(case)          -> dict(nt=bool, classes=[str,...], excluded=int)
                                 raises Violation(kind, detail) on a violation
    budget(tier)              -> dict(examples=<per shard>, shards=<n>,
                                      time_s=<soft wall budget>)
    enumerate_cases(tier, shard, nshards) -> (iterable of THIS shard's cases, scope text) | None [optional]
    probes()                  -> list of (known-finding key, callable)    [optional]
    extra_phase(tier, seed)   -> dict like a worker result                [optional]

Cases are JSON-able values; the same `check_case` is used for the saved corpus,
the bounded-exhaustive enumeration, the Hypothesis search and `--replay`.
"""

from __future__ import annotations

import collections
import hashlib
import json
import multiprocessing as mp
import os
import re
import sys
import time
import traceback

VERIF = os.path.dirname(os.path.dirname(os.path.abspath(__file__)))
REPO = os.path.abspath(os.environ.get("VERIF_REPO", "/repo"))


class Violation(Exception):
    """The property under test does not hold for the current case."""

    def __init__(self, kind, detail=None):
        super().__init__(f"{kind}: {detail}")
        self.kind = str(kind)
        self.detail = detail


class HarnessError(Exception):
    """Something is wrong with the check itself (never a VIOLATION)."""


def require(cond, kind, detail=None):
    if not cond:
        raise Violation(kind, detail() if callable(detail) else detail)


def setup_paths():
    """Put the tree under test first on sys.path and verify we import it."""
    deps = os.path.join(VERIF, ".deps")
    for p in (deps, VERIF, REPO):
        if p in sys.path:
            sys.path.remove(p)
    if os.path.isdir(deps):
        sys.path.insert(0, deps)
    sys.path.insert(0, VERIF)
    sys.path.insert(0, REPO)
    import edgegraph  # noqa

    got = os.path.dirname(os.path.abspath(edgegraph.__file__))
    want = os.path.join(REPO, "edgegraph")
    if os.path.realpath(got) != os.path.realpath(want):
        raise HarnessError(f"imported edgegraph from {got}, wanted {want}")


def reset_globals():
    """Reset every piece of process-global state the library keeps."""
    from edgegraph.structure import Vertex, singleton

    Vertex.NEIGHBOR_CACHING = False
    stats = getattr(Vertex, "_CACHE_STATS", None)      # private bookkeeping: reset it if (and as long as) it exists
    if isinstance(stats, dict):
        stats.clear()
    singleton.clear_true_singleton()
    from eglib import h

    h._RECENT.clear()


def case_hash(case) -> int:
    s = json.dumps(case, sort_keys=True, separators=(",", ":"), default=repr)
    return int.from_bytes(hashlib.blake2b(s.encode(), digest_size=8).digest(), "big")


def _in_repo(tb) -> bool:
    """Is the innermost frame of this traceback inside the tree under test?"""
    last = None
    while tb is not None:
        last = tb
        tb = tb.tb_next
    if last is None:
        return False
    fn = os.path.realpath(last.tb_frame.f_code.co_filename)
    return fn.startswith(os.path.realpath(os.path.join(REPO, "edgegraph")) + os.sep)


class Stats:
    def __init__(self, mod, deadline=None):
        self.mod = mod
        self.deadline = deadline
        self.evaluations = 0
        self.skipped_budget = 0
        self.nt = set()
        self.nt_enum = 0
        self.nt_points = 0
        self.seen_point_cases = set()
        self.classes = collections.Counter()
        self.excluded = 0
        self.samples = []
        self.nt_samples = []
        self.failures = {}  # kind -> (size, case, detail)
        self.harness_errors = []
        self.by_phase = collections.Counter()

    def run(self, case, phase, reraise=True):
        """Execute one case; record; re-raise Violation for Hypothesis."""
        if self.deadline is not None and time.time() > self.deadline:
            self.skipped_budget += 1
            return None
        reset_globals()
        self.evaluations += 1
        self.by_phase[phase] += 1
        try:
            info = self.mod.check_case(case) or {}
        except Violation as v:
            self._record_failure(v.kind, case, v.detail)
            if reraise:
                raise
            return None
        except RecursionError:
            raise
        except Exception as e:  # noqa
            tb = e.__traceback__
            if _in_repo(tb):
                frames = traceback.extract_tb(tb)
                fr = frames[-1]
                kind = (
                    f"unexpected-exception:{type(e).__name__}@"
                    f"{os.path.basename(fr.filename)}:{fr.name}"
                )
                self._record_failure(kind, case, repr(e))
                if reraise:
                    raise Violation(kind, repr(e)) from e
                return None
            self.harness_errors.append(
                "".join(traceback.format_exception(type(e), e, tb))[-4000:]
            )
            if reraise:
                raise
            return None
        finally:
            try:
                reset_globals()
            except Exception:  # noqa
                pass
        for c in info.get("classes", ()):
            self.classes[c] += 1
        self.excluded += int(info.get("excluded", 0))
        if info.get("nt_points"):
            # a case that enumerates several non-trivial sub-cases (e.g. fault points); they are
            # distinct within the case by construction, so count them once per distinct case
            h = case_hash(case)
            if h not in self.seen_point_cases:
                self.seen_point_cases.add(h)
                self.nt_points += int(info["nt_points"])
                if len(self.nt_samples) < 3:
                    self.nt_samples.append(case)
        if info.get("nt"):
            if phase == "enum":
                # enumerated cases are pairwise distinct by construction
                self.nt_enum += 1
                if len(self.nt_samples) < 3:
                    self.nt_samples.append(case)
            elif not info.get("enum_scope"):
                # (cases inside the enumerated scope are not counted twice)
                h = case_hash(case)
                if h not in self.nt:
                    self.nt.add(h)
                    if len(self.nt_samples) < 3:
                        self.nt_samples.append(case)
        elif len(self.samples) < 1:
            self.samples.append(case)
        return info

    def _record_failure(self, kind, case, detail):
        size = len(json.dumps(case, default=repr))
        old = self.failures.get(kind)
        if old is None or size < old[0]:
            self.failures[kind] = (size, case, detail)

    def result(self):
        return dict(
            evaluations=self.evaluations,
            skipped_budget=self.skipped_budget,
            nt=self.nt,
            nt_enum=self.nt_enum,
            nt_points=self.nt_points,
            point_cases=self.seen_point_cases,
            classes=self.classes,
            excluded=self.excluded,
            samples=self.nt_samples + self.samples,
            failures={k: (v[1], v[2]) for k, v in self.failures.items()},
            harness_errors=self.harness_errors[:3],
            by_phase=self.by_phase,
        )


def sharded(iterable, shard, nshards):
    """Every nshards-th element of iterable, starting at shard."""
    import itertools

    return itertools.islice(iterable, shard, None, nshards)


def shard_seed(seed, ident, shard):
    h = hashlib.sha1(f"{seed}:{ident}:{shard}".encode()).digest()
    return int.from_bytes(h[:6], "big")


def _load(modname):
    setup_paths()
    import importlib

    return importlib.import_module(f"checks.{modname}")


def _budget(mod, tier):
    """The check's budget, scaled down for the (secondary) optimised-interpreter pass."""
    bud = dict(mod.budget(tier))
    scale = float(os.environ.get("VERIF_BUDGET_SCALE", "1") or 1)
    if scale != 1:
        bud["examples"] = max(20, int(bud.get("examples", 0) * scale))
        bud["time_s"] = max(15, float(bud.get("time_s", 60)) * scale)
    return bud


def _worker(args):
    modname, tier, seed, shard, nshards, deadline = args
    try:
        mod = _load(modname)
        stats = Stats(mod, deadline)
        bud = _budget(mod, tier)

        # ---- phase 1: bounded-exhaustive enumeration (sharded by index)
        enum = getattr(mod, "enumerate_cases", None)
        if os.environ.get("VERIF_SUBPASS"):
            enum = None         # the secondary pass samples; the exhaustive core belongs to the main pass
        enum_done = True
        if enum is not None:
            res = enum(tier, shard, nshards)
            if res is not None:
                cases, _scope = res
                for case in cases:
                    stats.run(case, "enum", reraise=False)
                    if stats.skipped_budget:
                        enum_done = False
                        break
                    if len(stats.failures) >= 5:
                        enum_done = False
                        break

        # ---- phase 2: Hypothesis
        n = int(bud.get("examples", 0))
        if n > 0 and not stats.harness_errors:
            import hypothesis
            from hypothesis import HealthCheck, Phase, given, settings

            phases = [Phase.generate, Phase.shrink]
            if tier == "quick" and bud.get("no_shrink_quick"):
                phases = [Phase.generate]
            strat = mod.strategy(tier)

            @hypothesis.seed(shard_seed(seed, mod.ID, shard))
            @settings(
                max_examples=n,
                database=None,
                deadline=None,
                derandomize=False,
                report_multiple_bugs=False,
                suppress_health_check=list(HealthCheck),
                phases=phases,
                print_blob=False,
            )
            @given(strat)
            def prop(case):
                stats.run(case, "hypothesis")

            try:
                prop()
            except Violation:
                pass
            except Exception as e:  # noqa
                if not stats.harness_errors and not stats.failures:
                    stats.harness_errors.append(
                        "".join(traceback.format_exception(type(e), e, e.__traceback__))[-4000:]
                    )
        out = stats.result()
        out["enum_done"] = enum_done
        out["failure_shard"] = {k: shard for k in out["failures"]}
        return out
    except BaseException as e:  # noqa
        return dict(
            evaluations=0,
            skipped_budget=0,
            nt=set(),
            nt_enum=0,
            classes=collections.Counter(),
            excluded=0,
            samples=[],
            failures={},
            harness_errors=[
                "worker crashed: "
                + "".join(traceback.format_exception(type(e), e, e.__traceback__))[-4000:]
            ],
            by_phase=collections.Counter(),
            enum_done=False,
        )


def _optimised_interpreter_pass(mod, modname, tier, seed):
    """
    The same check once more, with a fraction of the Hypothesis budget, in an interpreter started with -O
    (`assert` statements and `if __debug__:` blocks are compiled away): library code that does real work inside an
    assert behaves differently there.  -> (info for the evidence, [(replay path, kind, detail)])
    A pass that cannot be completed (exit 2, time-out) is reported as inconclusive, never as a violation.
    """
    import subprocess

    scale = "0.25" if tier == "quick" else "0.06"
    env = dict(os.environ, VERIF_SUBPASS="O", VERIF_NO_EVIDENCE="1", VERIF_BUDGET_SCALE=scale, PYTHONHASHSEED="0", PYTHONDONTWRITEBYTECODE="1")
    env.pop("PYTHONOPTIMIZE", None)
    cmd = [sys.executable, "-O", os.path.join(VERIF, "run.py"), mod.ID, "--tier", tier, "--seed", str(seed)]
    t0 = time.time()
    try:
        p = subprocess.run(cmd, env=env, stdout=subprocess.PIPE, stderr=subprocess.PIPE, timeout=1500, cwd=VERIF)
        out, rc = p.stdout.decode(errors="replace"), p.returncode
    except subprocess.TimeoutExpired:
        return dict(status="inconclusive: timed out", wall_s=round(time.time() - t0, 1)), []
    found, lines = [], out.splitlines()
    for i, l in enumerate(lines):
        m = re.match(r"VIOLATION property=\S+ replay=(\S+)", l)
        if not m:
            continue
        path = m.group(1)
        nxt = lines[i + 1] if i + 1 < len(lines) else ""
        m2 = re.match(r"\s+kind=(\S+) detail=(.*)", nxt)
        kind, detail = (m2.group(1), m2.group(2)) if m2 else ("?", "")
        try:
            data = json.load(open(path))
            data["python_flags"] = ["-O"]
            data["note_interpreter"] = "found by the optimised-interpreter pass: --replay re-runs it under `python -O`"
            with open(path, "w") as f:
                json.dump(data, f, indent=1, default=repr)
        except Exception:  # noqa
            pass
        found.append((path, kind, detail))
    summary = next((l for l in reversed(lines) if "evaluations=" in l), "")
    m3 = re.search(r"evaluations=(\d+)", summary)
    info = dict(status=("completed" if rc in (0, 1) else "inconclusive: the pass ended with exit code %d" % rc),
                interpreter="python -O (asserts and `if __debug__:` blocks compiled away)", budget_scale=float(scale),
                evaluations=int(m3.group(1)) if m3 else 0, violations=len(found), wall_s=round(time.time() - t0, 1))
    return info, found


def shrink_ops(mod, case, kind):
    """Greedy delta-debugging over case["ops"]: drop chunks, then single ops, while the same violation kind remains."""
    if not isinstance(case, dict) or not isinstance(case.get("ops"), list):
        return case

    def fails(c):
        reset_globals()
        try:
            mod.check_case(c)
        except Violation as v:
            return v.kind == kind
        except Exception:  # noqa
            return False
        finally:
            reset_globals()
        return False

    if not fails(case):
        return case
    ops = list(case["ops"])
    chunk = max(1, len(ops) // 2)
    while chunk >= 1:
        i = 0
        while i < len(ops):
            trial = ops[:i] + ops[i + chunk:]
            if fails(dict(case, ops=trial)):
                ops = trial
            else:
                i += chunk
        chunk //= 2
    return dict(case, ops=ops)


def run_atheris(modname, mod, seed, runs, nproc):
    """Run `nproc` atheris fuzzers (eglib.fuzz) in parallel; -> a worker-style result dict."""
    import shutil
    import subprocess

    probe = subprocess.run([sys.executable, "-c", "import sys; sys.path.insert(0, %r); import atheris" % os.path.join(VERIF, ".deps")],
                           stdout=subprocess.DEVNULL, stderr=subprocess.DEVNULL)
    if probe.returncode != 0:
        return dict(evaluations=0, skipped_budget=0, nt=set(), nt_enum=0, classes=collections.Counter(), excluded=0, samples=[],
                    failures={}, harness_errors=[], by_phase=collections.Counter(),
                    info=dict(engine="atheris", skipped="atheris is not importable here; the coverage-guided phase was skipped"))
    base = os.path.join(VERIF, "replays", ".fuzz", mod.ID)
    shutil.rmtree(base, ignore_errors=True)
    os.makedirs(base, exist_ok=True)
    env = dict(os.environ, PYTHONHASHSEED="0", PYTHONDONTWRITEBYTECODE="1")
    procs = []
    for k in range(nproc):
        out = os.path.join(base, str(k))
        os.makedirs(out, exist_ok=True)
        log = open(os.path.join(out, "log.txt"), "w")
        procs.append((k, out, subprocess.Popen(
            [sys.executable, "-m", "eglib.fuzz", modname, out, str(runs), str(shard_seed(seed, mod.ID + "-atheris", k) % (2 ** 31 - 1) + 1)],
            cwd=VERIF, env=env, stdout=log, stderr=subprocess.STDOUT)))
    res = dict(evaluations=0, skipped_budget=0, nt=set(), nt_enum=0, classes=collections.Counter(), excluded=0, samples=[],
               failures={}, harness_errors=[], by_phase=collections.Counter())
    corpus_total = 0
    for k, out, p in procs:
        try:
            p.wait(timeout=3600)
        except subprocess.TimeoutExpired:
            p.kill()
        st_path = os.path.join(out, "stats.json")
        if os.path.exists(st_path):
            st = json.load(open(st_path))
            res["evaluations"] += st["evaluations"]
            res["by_phase"]["atheris"] += st["evaluations"]
            res["nt"] |= set(st.get("nt_hashes", []))
        elif p.returncode not in (0, None):
            tail = open(os.path.join(out, "log.txt")).read()[-1500:]
            res["harness_errors"].append(f"atheris fuzzer {k} failed (rc={p.returncode}): {tail}")
        corpus_total += len(os.listdir(os.path.join(out, "corpus"))) if os.path.isdir(os.path.join(out, "corpus")) else 0
        for fn in sorted(os.listdir(out)):
            if fn.startswith("fail-") and fn.endswith(".json"):
                d = json.load(open(os.path.join(out, fn)))
                res["failures"].setdefault(d["kind"], (d["case"], d["detail"]))
    # libFuzzer does not minimise: shrink each failing history by greedy op removal (same failure kind must persist)
    for kind, (case, detail) in list(res["failures"].items()):
        res["failures"][kind] = (shrink_ops(mod, case, kind), detail)
    res["classes"]["atheris-fuzzers"] = nproc
    res["info"] = dict(engine="atheris 3.1 (libFuzzer) over eglib/fuzz.py byte decoder", fuzzers=nproc, runs_per_fuzzer=runs,
                       executions=res["evaluations"], corpus_entries_found_by_coverage=corpus_total)
    return res


def known_findings():
    """Parse /verif/known_findings.txt -> (open {property: {key: text}}, fixed list)."""
    path = os.path.join(VERIF, "known_findings.txt")
    open_, fixed = collections.defaultdict(dict), []
    if os.path.exists(path):
        for line in open(path):
            line = line.strip()
            if not line or line.startswith("#"):
                continue
            if line.startswith("open:"):
                parts = line[5:].split(None, 2)
                prop = parts[0].split("=", 1)[1]
                key = parts[1].split("=", 1)[1]
                open_[prop][key] = parts[2] if len(parts) > 2 else ""
            elif line.startswith("fixed:"):
                fixed.append(line)
    return open_, fixed


def open_keys(prop):
    return set(known_findings()[0].get(prop, {}))


def _slug(s):
    return "".join(c if c.isalnum() or c in "-_." else "_" for c in s)[:80]


def _replay_in_fresh_interpreter(mod, case):
    import subprocess
    import tempfile

    with tempfile.NamedTemporaryFile("w", suffix=".json", delete=False, dir=os.path.join(VERIF, "replays")) as f:
        json.dump(dict(case=case), f, default=repr)
        tmp = f.name
    try:
        p = subprocess.run([sys.executable, os.path.join(VERIF, "run.py"), mod.ID, "--replay", tmp],
                           stdout=subprocess.PIPE, stderr=subprocess.STDOUT, cwd=VERIF, timeout=1800)
        return p.returncode == 1 and b"VIOLATION" in p.stdout
    except Exception:  # noqa
        return False
    finally:
        os.unlink(tmp)


def _shard_replay_finds(modname, tier, seed, shard, nshards, kind):
    import subprocess

    env = dict(os.environ, PYTHONHASHSEED="0", PYTHONDONTWRITEBYTECODE="1")
    try:
        p = subprocess.run([sys.executable, "-m", "eglib.shardreplay", modname, tier, str(seed), str(shard), str(nshards)],
                           stdout=subprocess.PIPE, stderr=subprocess.STDOUT, cwd=VERIF, env=env, timeout=3600)
    except Exception:  # noqa
        return False
    for line in p.stdout.decode(errors="replace").splitlines():
        if line.startswith("SHARDREPLAY "):
            return kind in json.loads(line[len("SHARDREPLAY "):])["kinds"]
    return False


def write_replay(mod, kind, case, detail, shard_info=None):
    d = os.path.join(VERIF, "replays", mod.ID)
    os.makedirs(d, exist_ok=True)
    h = "%016x" % case_hash(case)
    path = os.path.join(d, f"{_slug(kind)}-{h[:10]}.json")
    with open(path, "w") as f:
        json.dump(
            dict(property=mod.ID, kind=kind, detail=repr(detail)[:2000], case=case,
                 **({"shard_replay": shard_info, "note": "history-dependent: this case fails only after the cases that precede it in its shard (state kept by the library between cases); --replay re-runs that shard in a fresh interpreter"} if shard_info else {})),
            f,
            indent=1,
            default=repr,
        )
    return path


def run_replay(modname, path):
    mod = _load(modname)
    data = json.load(open(path))
    if isinstance(data, dict) and data.get("shard_replay"):
        sr = data["shard_replay"]
        if _shard_replay_finds(sr["check"], sr["tier"], sr["seed"], sr["shard"], sr["nshards"], sr["kind"]):
            print(f"VIOLATION property={mod.ID} replay={path}")
            print(f"  kind={sr['kind']} (history-dependent; reproduced by re-running shard {sr['shard']} of {sr['nshards']}, seed {sr['seed']}, tier {sr['tier']})")
            return 1
        print(f"replay: property {mod.ID} holds on the shard described by {path}")
        return 0
    case = data["case"] if isinstance(data, dict) and "case" in data else data
    stats = Stats(mod)
    stats.run(case, "replay", reraise=False)
    if stats.harness_errors:
        print(stats.harness_errors[0])
        return 2
    kf = known_findings()[0].get(mod.ID, {})
    rc = 0
    for kind, (_sz, c, detail) in stats.failures.items():
        key = next((k for k in kf if kind == k or kind.startswith(k + ":")), None)
        if key:
            print(f"KNOWN-FINDING: property={mod.ID} {kf[key]}")
        else:
            print(f"VIOLATION property={mod.ID} replay={path}")
            print(f"  kind={kind} detail={str(detail)[:500]}")
            rc = 1
    if rc == 0 and not stats.failures:
        print(f"replay: property {mod.ID} holds on {path}")
    return rc


def main(modname, tier, seed):
    t0 = time.time()
    mod = _load(modname)
    bud = _budget(mod, tier)
    subpass = os.environ.get("VERIF_SUBPASS")
    nshards = int(bud.get("shards", 16))
    deadline = t0 + float(bud.get("time_s", 60 if tier == "quick" else 900))
    kf_open = known_findings()[0].get(mod.ID, {})

    total = Stats(mod)
    merged = dict(
        evaluations=0,
        skipped_budget=0,
        nt=set(),
        nt_enum=0,
        classes=collections.Counter(),
        excluded=0,
        samples=[],
        failures={},
        harness_errors=[],
        by_phase=collections.Counter(),
    )
    enum_done = True

    def merge(r):
        nonlocal enum_done
        merged["evaluations"] += r["evaluations"]
        merged["skipped_budget"] += r["skipped_budget"]
        merged["nt"] |= r["nt"]
        merged["nt_enum"] += r.get("nt_enum", 0)
        new_cases = r.get("point_cases", set()) - merged.setdefault("point_cases", set())
        if r.get("nt_points"):
            # shards draw different cases; scale down if a case was seen by two shards
            frac = len(new_cases) / max(1, len(r.get("point_cases", ())))
            merged["nt_points"] = merged.get("nt_points", 0) + int(r["nt_points"] * frac)
        merged["point_cases"] |= r.get("point_cases", set())
        merged["classes"].update(r["classes"])
        merged["excluded"] += r["excluded"]
        if len(merged["samples"]) < 6:
            merged["samples"].extend(r["samples"][: 6 - len(merged["samples"])])
        for k, (case, detail) in r["failures"].items():
            old = merged["failures"].get(k)
            if old is None or len(json.dumps(case, default=repr)) < len(
                json.dumps(old[0], default=repr)
            ):
                merged["failures"][k] = (case, detail)
                merged.setdefault("failure_shard", {})[k] = r.get("failure_shard", {}).get(k)
        merged["harness_errors"].extend(r["harness_errors"])
        merged["by_phase"].update(r["by_phase"])
        enum_done = enum_done and r.get("enum_done", True)

    # ---- phase 0: saved corpus (statement examples, shrunk past failures), in-process
    corpus_dir = os.path.join(VERIF, "corpus", mod.ID)
    if os.path.isdir(corpus_dir):
        for fn in sorted(os.listdir(corpus_dir)):
            if fn.endswith(".json"):
                data = json.load(open(os.path.join(corpus_dir, fn)))
                case = data["case"] if isinstance(data, dict) and "case" in data else data
                total.run(case, "corpus", reraise=False)
    # ---- known-finding probes
    kf_lines = []
    probes = getattr(mod, "probes", None)
    if subpass:
        probes = None       # a known finding is described (and probed) as it shows in a normal interpreter
    if probes is not None:
        for key, fn in probes():
            if key not in kf_open:
                continue
            reset_globals()
            verdict = fn()  # "reproduces" | "gone" | ("different", detail)
            reset_globals()
            if verdict == "reproduces":
                kf_lines.append(f"KNOWN-FINDING: property={mod.ID} {kf_open[key]}")
            elif verdict == "gone":
                print(f"note: known finding {key} no longer reproduces")
            else:
                total._record_failure(f"known-finding-changed:{key}", {"probe": key}, verdict)
    r0 = total.result()
    r0["enum_done"] = True
    merge(r0)

    # ---- phases 1+2 in worker processes
    ctx = mp.get_context("fork")
    jobs = [(modname, tier, seed, s, nshards, deadline) for s in range(nshards)]
    with ctx.Pool(min(nshards, os.cpu_count() or 1)) as pool:
        for r in pool.imap_unordered(_worker, jobs):
            merge(r)

    # ---- optional coverage-guided phase (atheris / libFuzzer), one fuzzer process per core
    fuzz_info = None
    fz = getattr(mod, "FUZZ", None)
    if fz and not merged["harness_errors"] and not subpass:
        runs = int(fz.get(tier, 0))
        if runs > 0:
            r = run_atheris(modname, mod, seed, runs, nshards)
            fuzz_info = r.pop("info", None)
            r.setdefault("enum_done", True)
            merge(r)

    # ---- optional extra phase (fresh-interpreter batches etc.)
    extra = getattr(mod, "extra_phase", None)
    extra_info = None
    if extra is not None and not merged["harness_errors"] and not subpass:
        r = extra(tier, seed, deadline)
        extra_info = r.pop("info", None)
        r.setdefault("enum_done", True)
        merge(r)

    # ---- confirm failures by deterministic replay, classify, report
    violations = 0
    out_lines = []
    for kind, (case, detail) in sorted(merged["failures"].items()):
        key = next((k for k in kf_open if kind == k or kind.startswith(k + ":")), None)
        if key:
            line = f"KNOWN-FINDING: property={mod.ID} {kf_open[key]}"
            if line not in kf_lines:
                kf_lines.append(line)
            continue
        if isinstance(case, dict) and ("probe" in case or case.get("_noreplay")):
            confirmed = True
        else:
            st2 = Stats(mod)
            st2.run(case, "confirm", reraise=False)
            confirmed = bool(st2.failures)
            if st2.harness_errors:
                merged["harness_errors"].extend(st2.harness_errors)
        shard_info = None
        if not confirmed:
            # the verdict may depend on state the library keeps between cases: try a fresh interpreter on the case
            # alone, then re-run the whole shard that produced it (deterministic given code, tier, seed, shard)
            confirmed = _replay_in_fresh_interpreter(mod, case)
            if not confirmed:
                sh = merged.get("failure_shard", {}).get(kind)
                if sh is not None and _shard_replay_finds(modname, tier, seed, sh, nshards, kind):
                    confirmed = True
                    shard_info = dict(check=modname, tier=tier, seed=seed, shard=sh, nshards=nshards, kind=kind)
        if not confirmed:
            merged["harness_errors"].append(
                f"failure kind={kind} did not reproduce on replay (flaky oracle?): {detail}"
            )
            continue
        path = write_replay(mod, kind, case, detail, shard_info)
        violations += 1
        out_lines.append(f"VIOLATION property={mod.ID} replay={path}")
        out_lines.append(f"  kind={kind} detail={str(detail)[:400]}")

    opt_info = None
    if not subpass and not sys.flags.optimize and os.environ.get("VERIF_OPT_PASS", "1") != "0":
        opt_info, more = _optimised_interpreter_pass(mod, modname, tier, seed)
        for path, kind, detail in more:
            violations += 1
            out_lines.append(f"VIOLATION property={mod.ID} replay={path}")
            out_lines.append(f"  kind=under-python-O:{kind} detail={detail[:400]}")

    wall = time.time() - t0
    enum_scope = None
    enum = getattr(mod, "enumerate_cases", None)
    if enum is not None:
        res = enum(tier, 0, 1)
        if res is not None:
            enum_scope = res[1]
    coverage = dict(
        evaluations=merged["evaluations"],
        distinct_nontrivial=len(merged["nt"]) + merged["nt_enum"] + merged.get("nt_points", 0),
        rule=mod.RULE,
        samples=merged["samples"][:6],
        classes=dict(merged["classes"].most_common()),
        by_phase=dict(merged["by_phase"]),
        excluded_by_known_finding=merged["excluded"],
        skipped_for_time_budget=merged["skipped_budget"],
        shards=nshards,
        hypothesis_examples_per_shard=int(bud.get("examples", 0)),
        exhaustive=bool(enum_scope and enum_done and not merged["skipped_budget"]),
    )
    if enum_scope:
        coverage["exhaustive_scope"] = enum_scope
    if extra_info:
        coverage["extra"] = extra_info
    if fuzz_info:
        coverage["atheris"] = fuzz_info
    if opt_info:
        coverage["optimised_interpreter_pass"] = opt_info
    evidence = dict(
        property_id=mod.ID,
        tier=tier,
        seed=seed,
        level=mod.LEVEL,
        coverage=coverage,
        assumptions=list(getattr(mod, "ASSUMPTIONS", [])),
        wall_s=round(wall, 2),
        violations=violations,
    )
    evdir = os.path.join(VERIF, "evidence")
    if os.environ.get("VERIF_NO_EVIDENCE"):
        # sensitivity runs against scratch copies must not overwrite the evidence of /repo
        evdir = os.path.join("/tmp", f"eg_evidence_{os.getpid()}")
    os.makedirs(evdir, exist_ok=True)
    with open(os.path.join(evdir, f"{mod.ID}.json"), "w") as f:
        json.dump(evidence, f, indent=1, default=repr)
        f.write("\n")
    if os.environ.get("VERIF_NO_EVIDENCE"):
        import shutil

        shutil.rmtree(evdir, ignore_errors=True)

    for line in kf_lines:
        print(line)
    for line in out_lines:
        print(line)
    print(
        f"{mod.ID} {tier} seed={seed}: evaluations={merged['evaluations']} "
        f"distinct_nontrivial={len(merged['nt']) + merged['nt_enum'] + merged.get('nt_points', 0)} violations={violations} "
        f"skipped_for_budget={merged['skipped_budget']} wall={wall:.1f}s"
    )
    if merged["harness_errors"]:
        print("HARNESS ERROR (not a violation):", file=sys.stderr)
        for e in merged["harness_errors"][:3]:
            print(e, file=sys.stderr)
        return 1 if violations else 2
    return 1 if violations else 0
