"""Shared case generator for the renderer properties C14 / C15 / C16."""
from hypothesis import strategies as st

from eglib import graphs


def cases(classes=7, max_v=6, max_e=10):
    def mk(g, memb, opt, extra, scale=None, fill=0):
        nv = g["nv"]
        if scale:
            g = dict(g, scale=scale)
            if memb:
                scale["hub"][0] = memb[0] % nv      # the vertex with very many links is a member
        if fill or scale:
            return {"g": g, "uni": [x % nv for x in memb], "opt": opt, "extra": extra, "fill": fill}
        # "uni" may name a vertex more than once: Universe(vertices=...) takes each once
        return {"g": g, "uni": [x % nv for x in memb], "opt": opt, "extra": extra}

    return st.builds(
        mk,
        st.one_of(graphs.graph_descs(max_v, max_e, classes, max_reassign=2, wide=True), graphs.graph_descs(max_v, max_e, classes, min_v=3, min_e=3, max_reassign=2, wide=True),
                  graphs.graph_descs(max_v, max_e, 12 if classes >= 7 else classes, min_v=2, min_e=2, max_reassign=2, wide=True)),
        st.lists(st.integers(0, max_v - 1), max_size=max_v),
        st.integers(0, 4095),
        st.integers(0, 7),
        # scaled-up worlds: a member with 70 / 300 links (the leaves are members in every other case), and
        # universes whose first 258 / 300 members are isolated fillers (the generated members come after them)
        graphs.scales(hubs=(70, 300), chains=(), rate=60),
        st.sampled_from([0] * 60 + [258, 300]),
    )


def distinct(seq):
    """The distinct objects of seq (by identity), in first-occurrence order: 'the member vertices' of a universe."""
    out = []
    for x in seq:
        if all(x is not y for y in out):
            out.append(x)
    return out


def perturb(case, vs, ls, u):
    """
    Between two renderings of one universe: re-number the vertices' `i` attribute (titles / renderings depend on
    it), end one membership from the VERTEX side and start another, i.e. state a renderer may have memoised
    is now stale.  -> True if anything changed.
    """
    sel = case.get("extra", 0)
    changed = False
    for v in vs:
        v.i = v.i + 100 + (sel % 3)
        changed = True
    members = u.vertices
    outside = [v for v in vs if all(v is not m for m in members)]
    if len(members) >= 2 and sel & 1:
        members[(sel >> 1) % (len(members) - 1)].remove_from_universe(u)     # a non-last member leaves
        changed = True
    if outside and sel & 2:
        outside[(sel >> 2) % len(outside)].add_to_universe(u)
        changed = True
    return changed


def build(case):
    from edgegraph.structure import Universe

    vs, ls = graphs.build(case["g"])
    members = [vs[m] for m in case["uni"]]
    leaves = graphs.scale_layout(case["g"])[0]
    if len(leaves) and (case["opt"] & 1 or len(case["uni"]) % 2):
        members += [vs[i] for i in leaves]
    if case.get("fill"):
        from edgegraph.structure import Vertex

        fillers = [Vertex(attributes={"i": 20000 + k}) for k in range(case["fill"])]
        members = fillers + members
        vs.extend(fillers)      # part of the world (after the generated vertices and the hub leaves)
    u = Universe(vertices=members)
    return vs, ls, u
