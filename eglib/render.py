"""Shared case generator for the renderer properties C14 / C15 / C16."""
from hypothesis import strategies as st

from eglib import graphs


def cases(classes=7, max_v=6, max_e=10):
    def mk(g, memb, opt, extra):
        nv = g["nv"]
        return {"g": g, "uni": list(dict.fromkeys(x % nv for x in memb)), "opt": opt, "extra": extra}

    return st.builds(
        mk,
        st.one_of(graphs.graph_descs(max_v, max_e, classes, max_reassign=2, wide=True), graphs.graph_descs(max_v, max_e, classes, min_v=3, min_e=3, max_reassign=2, wide=True)),
        st.lists(st.integers(0, max_v - 1), max_size=max_v),
        st.integers(0, 63),
        st.integers(0, 7),
    )


def build(case):
    from edgegraph.structure import Universe

    vs, ls = graphs.build(case["g"])
    u = Universe(vertices=[vs[m] for m in case["uni"]])
    return vs, ls, u
