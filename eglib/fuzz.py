"""
Coverage-guided fuzzing of history checks with atheris (libFuzzer), as an extra
search engine next to Hypothesis and the exhaustive enumeration.

    python -m eglib.fuzz <check> <outdir> <runs> <seed>

The byte string is decoded into the SAME plain-data case the check's Hypothesis
strategy produces (construction, not rejection: every byte string is a valid
history), the check's own `check_case` is the oracle, and a failing case is
written as JSON to <outdir>/fail-*.json before the exception reaches libFuzzer.
Counters are flushed to <outdir>/stats.json (atexit handlers do not run).
"""
import json
import os
import sys


def decoder(modname):
    """-> function bytes -> case for the given check module."""
    if modname in ("c01", "c05", "c03"):
        from checks import c01, c03, c05

        ops_w = {"c01": c01.OPS_W, "c05": c05.OPS_W, "c03": c03.OPS_W}[modname]

        def dec(data):
            if len(data) < 2:
                data = data + b"\x00\x00"
            nv = 2 + data[0] % 4
            head = data[1]
            ops = []
            body = data[2:]
            for p in range(0, len(body) - 3, 4):
                ops.append([ops_w[body[p] % len(ops_w)], body[p + 1] % 12, body[p + 2] % 12, body[p + 3] % 48])
            vcls = None if head & 1 else [(head >> 1) % 4, (head >> 3) % 4, (head >> 5) % 4]
            if modname == "c05":
                return {"nv": 2 + data[0] % 3, "flag0": bool(head & 128), "vcls": vcls, "ops": ops}
            if modname == "c03":
                nuni = (data[0] >> 2) % 3
                return {"nv": nv, "nuni": min(nuni, nv - 1), "vcls": vcls, "ops": ops}
            return {"nv": nv, "nuni": (data[0] >> 2) % 2, "vcls": vcls, "ops": ops}

        return dec
    raise ValueError(f"no byte decoder for {modname}")


def main():
    modname, outdir, runs, seed = sys.argv[1].lower(), sys.argv[2], int(sys.argv[3]), int(sys.argv[4])
    here = os.path.dirname(os.path.dirname(os.path.abspath(__file__)))
    sys.path.insert(0, here)
    from eglib import driver

    deps = os.path.join(here, ".deps")
    if os.path.isdir(deps):
        sys.path.insert(0, deps)
    import atheris

    os.makedirs(outdir, exist_ok=True)
    corpus = os.path.join(outdir, "corpus")
    os.makedirs(corpus, exist_ok=True)
    with atheris.instrument_imports(include=["edgegraph"]):
        driver.setup_paths()
        import importlib

        # import every module of the package now, while the instrumenting import hook is active
        for m in ("structure", "structure.base", "structure.vertex", "structure.link", "structure.twoendedlink",
                  "structure.directededge", "structure.undirectededge", "structure.universe", "structure.singleton",
                  "builder.explicit", "builder.adjlist", "builder.adjmatrix", "builder.randgraph",
                  "traversal.helpers", "traversal.breadthfirst", "traversal.depthfirst",
                  "output.nrpickler", "output.plaintext", "output.plantuml", "output.pyvis"):
            importlib.import_module("edgegraph." + m)

        mod = importlib.import_module(f"checks.{modname}")
    dec = decoder(modname)
    stats = dict(evaluations=0, nontrivial=0, nt_hashes=[], failures=0)
    seen = set()

    def flush():
        stats["nt_hashes"] = sorted(seen)[:200000]
        with open(os.path.join(outdir, "stats.json.tmp"), "w") as f:
            json.dump(stats, f)
        os.replace(os.path.join(outdir, "stats.json.tmp"), os.path.join(outdir, "stats.json"))

    def one(data):
        case = dec(data)
        driver.reset_globals()
        stats["evaluations"] += 1
        try:
            info = mod.check_case(case) or {}
        except driver.Violation as v:
            stats["failures"] += 1
            with open(os.path.join(outdir, f"fail-{stats['failures']}.json"), "w") as f:
                json.dump(dict(kind=v.kind, detail=str(v.detail)[:2000], case=case), f)
            flush()
            raise
        finally:
            driver.reset_globals()
        if info.get("nt"):
            h = driver.case_hash(case)
            if h not in seen:
                seen.add(h)
                stats["nontrivial"] = len(seen)
        if stats["evaluations"] % 2000 == 0 or stats["evaluations"] >= runs:
            flush()

    atheris.Setup([sys.argv[0], f"-runs={runs}", "-max_total_time=420", f"-seed={seed}", "-max_len=322", "-len_control=0", "-print_final_stats=0", corpus], one)
    atheris.Fuzz()


if __name__ == "__main__":
    main()
