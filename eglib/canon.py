"""
Canonical form of an object graph reachable from a root (C10), and a
usability probe for un-pickled worlds.

canonical(root) -> (form, order)
  `order` lists every reachable edgegraph object and every mutable container
  (list / dict / set) in first-discovery order (breadth first from the root,
  attributes in insertion order); `form[i]` describes order[i] with references
  replaced by positions.  Equality of forms = order-preserving isomorphism
  that preserves classes (qualified names), uids, attribute names and values,
  ordered links / ends / members, and sharing of mutable containers.
"""
import math

SKIP_ATTRS = {"_Vertex__qa_nb_cache"}


def _qual(t):
    return f"{t.__module__}.{t.__qualname__}"


def _set_order(xs):
    """Deterministic visiting order for a set: graph objects by uid first, then the rest by repr."""
    objs = sorted((y for y in xs if hasattr(y, "uid")), key=lambda y: y.uid)
    rest = sorted((y for y in xs if not hasattr(y, "uid")), key=repr)
    return objs + rest


def canonical(root):
    from edgegraph.structure.base import BaseObject

    num = {}
    order = []

    def n(o):
        k = id(o)
        if k not in num:
            num[k] = len(order)
            order.append(o)
        return num[k]

    def val(x, depth=0):
        if isinstance(x, BaseObject):
            return ("ref", n(x))
        if isinstance(x, (list, dict, set)):
            return (type(x).__name__ + "ref", n(x))
        if isinstance(x, tuple):
            return ("tuple", tuple(val(y, depth + 1) for y in x))
        if isinstance(x, frozenset):
            return ("frozenset", tuple(sorted(repr(val(y, depth + 1)) for y in _set_order(x))))
        if isinstance(x, float):
            if math.isnan(x):
                return ("float", "nan")
            return ("float", repr(x))
        if isinstance(x, (int, str, bytes, bool, type(None), complex)):
            return (type(x).__name__, repr(x))
        if type(x).__module__ in ("re", "datetime", "decimal", "fractions") or isinstance(x, range):
            return (type(x).__name__, repr(x))       # immutable standard-library values: compared by their repr
        if isinstance(x, type):
            return ("class", _qual(x))
        if callable(x) and hasattr(x, "__qualname__"):
            return ("callable", getattr(x, "__module__", "?") + "." + x.__qualname__)
        return ("object", _qual(type(x)))

    n(root) if isinstance(root, (BaseObject, list, dict, set)) else None
    form = []
    if not order:
        # immutable root (tuple ...): describe it as a pseudo record
        form_root = val(root)
    else:
        form_root = ("ref", 0)
    i = 0
    while i < len(order):
        o = order[i]
        i += 1
        if isinstance(o, BaseObject):
            rec = [(k, val(v)) for k, v in vars(o).items() if k not in SKIP_ATTRS]
            for klass in type(o).__mro__:
                for slot in getattr(klass, "__slots__", ()) or ():
                    if slot not in ("__dict__", "__weakref__"):
                        rec.append(("slot:" + slot, val(getattr(o, slot)) if hasattr(o, slot) else ("unset",)))
            form.append((_qual(type(o)), tuple(rec)))
        elif isinstance(o, list):
            form.append(("list", tuple(val(y) for y in o)))
        elif isinstance(o, dict):
            form.append(("dict", tuple((val(k), val(v)) for k, v in o.items())))
        else:
            form.append(("set", tuple(sorted(repr(val(y)) for y in _set_order(o)))))
    return (form_root, tuple(form)), order


def first_form_difference(a, b):
    (ra, fa), (rb, fb) = a, b
    if ra != rb:
        return f"root: {ra} vs {rb}"
    if len(fa) != len(fb):
        return f"{len(fa)} reachable objects in the original, {len(fb)} in the copy"
    for i, (x, y) in enumerate(zip(fa, fb)):
        if x != y:
            if x[0] != y[0]:
                return f"object #{i}: class {x[0]} vs {y[0]}"
            xs, ys = x[1], y[1]
            for p, q in zip(xs, ys):
                if p != q:
                    return f"object #{i} ({x[0]}): {p} vs {q}"
            return f"object #{i} ({x[0]}): {len(xs)} vs {len(ys)} entries"
    return None


def usability_probe(vs):
    """Mutate-and-query on a (copied) pool; returns a plain description."""
    from edgegraph.builder import explicit
    from edgegraph.traversal import helpers

    if len(vs) < 1:
        return "empty"
    a, b = vs[0], vs[-1]

    def nb():
        # degenerate links (not exactly two ends) legitimately make neighbors() raise
        try:
            return [id(x) for x in helpers.neighbors(a, helpers.DIR_SENS_ANY, helpers.LNK_UNKNOWN_NEIGHBOR)]
        except Exception as e:  # noqa
            return "exc:" + type(e).__name__

    before = nb()
    e = explicit.link_directed(a, b)
    mid = nb()
    ok1 = True
    if isinstance(before, list) and isinstance(mid, list):
        ok1 = mid.count(id(b)) == before.count(id(b)) + 1
    ok2 = any(x is e for x in a.links) and any(x is e for x in b.links) and e.v1 is a and e.v2 is b
    e.unlink_from(a)
    e.unlink_from(b)
    after = nb()
    return dict(edge_visible=ok1, edge_attached=ok2, restored=(after == before))
