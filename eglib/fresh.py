"""
Helper run in a FRESH interpreter:   python -m eglib.fresh  < jobs.pickle  > results.pickle

jobs: list of dict(blob=bytes, flag=bool, loader="pickle"|"dill", want=[...], level=int)
      blob un-pickles to a dict with keys vs, ls, unis (lists) and optionally root.
results: list of dict(battery=[...], canon=..., error=str|None)
"""
import os
import pickle
import sys


def main():
    here = os.path.dirname(os.path.dirname(os.path.abspath(__file__)))
    sys.path.insert(0, here)
    from eglib import driver

    driver.setup_paths()
    jobs = pickle.load(sys.stdin.buffer)
    import dill  # noqa
    from edgegraph.structure import Vertex

    from eglib import battery

    results = []
    for job in jobs:
        res = dict(error=None)
        try:
            Vertex.NEIGHBOR_CACHING = bool(job["flag"])
            loader = dill if job.get("loader") == "dill" else pickle
            world = loader.loads(job["blob"]) if job.get("blob") is not None else None
            if "c20" in job["want"]:
                from checks import c20

                res["sig"] = c20.signature(job["case"])
                results.append(res)
                continue
            if "c05prefix" in job["want"]:
                from checks import c05

                res["blob"] = c05.prefix_in_this_process(job["case"], job["ops"])
                results.append(res)
                continue
            if "c05suffix" in job["want"]:
                from checks import c05

                res["outs"] = c05.continue_in_this_process(world["vs"], world["ls"], job["ops"])
                results.append(res)
                continue
            if "c10" in job["want"]:
                from eglib import canon

                form, order = canon.canonical(world)
                res["canon"] = form
                vs = [order[p] for p in job["vs_pos"]]
                ls = [order[p] for p in job["ls_pos"]]
                res["battery"] = battery.evaluate(vs, ls)
                res["usable"] = canon.usability_probe(vs)
                results.append(res)
                continue
            if "battery" in job["want"]:
                res["battery"] = battery.evaluate(world["vs"], world["ls"], world.get("unis", ()), level=job.get("level", 2))
            if "canon" in job["want"]:
                from eglib import canon

                res["canon"] = canon.canonical(world["root"])
            if "usable" in job["want"]:
                from eglib import canon

                res["usable"] = canon.usability_probe(world)
        except BaseException as e:  # noqa
            import traceback

            res["error"] = f"{type(e).__name__}: {e}\n" + "".join(traceback.format_tb(e.__traceback__)[-3:])
        finally:
            Vertex.NEIGHBOR_CACHING = False
        results.append(res)
    pickle.dump(results, sys.stdout.buffer)
    sys.stdout.buffer.flush()


def run_jobs(jobs, timeout=600):
    """Called from the parent: run `jobs` in one fresh interpreter."""
    import subprocess

    here = os.path.dirname(os.path.dirname(os.path.abspath(__file__)))
    env = dict(os.environ, PYTHONHASHSEED="0", PYTHONDONTWRITEBYTECODE="1")
    p = subprocess.run(
        [sys.executable, "-m", "eglib.fresh"],
        input=pickle.dumps(jobs),
        stdout=subprocess.PIPE,
        stderr=subprocess.PIPE,
        cwd=here,
        env=env,
        timeout=timeout,
    )
    if p.returncode != 0:
        raise RuntimeError(f"fresh interpreter failed rc={p.returncode}: {p.stderr.decode()[-2000:]}")
    return pickle.loads(p.stdout)


if __name__ == "__main__":
    main()
