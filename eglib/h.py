"""
The library's query functions, called with the HARNESS's small integers for direction (0 FORWARD, 1 ANY,
2 BACKWARD) and unknown-class handling (0 NONNEIGHBOR, 1 NEIGHBOR, 2 ERROR), translated here - by NAME - into
the library's own constants.  The numeric values of edgegraph.traversal.helpers.DIR_SENS_* / LNK_UNKNOWN_* are
nobody's business: a library that renumbers them must not make a check fail.
"""


def _H():
    from edgegraph.traversal import helpers

    return helpers


def D(d):
    H = _H()
    return (H.DIR_SENS_FORWARD, H.DIR_SENS_ANY, H.DIR_SENS_BACKWARD)[d] if isinstance(d, int) and not isinstance(d, bool) and 0 <= d <= 2 else d


def U(u):
    H = _H()
    return (H.LNK_UNKNOWN_NONNEIGHBOR, H.LNK_UNKNOWN_NEIGHBOR, H.LNK_UNKNOWN_ERROR)[u] if isinstance(u, int) and not isinstance(u, bool) and 0 <= u <= 2 else u


def neighbors(vert, d=0, u=2, filterfunc=None):
    res = _H().neighbors(vert, D(d), U(u), filterfunc)
    out = list(res)
    spoil(res)          # the list belongs to the caller: the harness keeps a copy and scribbles on the original
    return out


def find_links(v1, v2, ds=True, u=2, filterfunc=None):
    res = _H().find_links(v1, v2, ds, U(u), filterfunc)
    out = set(res)
    spoil(res)
    return out


def kw(d=None, u=None, **more):
    """Keyword arguments for the traversals / searches."""
    out = dict(more)
    if d is not None:
        out["direction_sensitive"] = D(d)
    if u is not None:
        out["unknown_handling"] = U(u)
    return out


# ---------------------------------------------------------------------------------------------------------
# "What the caller does with what it got": every container the library hands out belongs to the caller, who may
# change it at will; and every call that is documented to BUILD something returns a new object.

class _Junk:
    """A foreign object a caller might put into a list / set it received."""

    def __repr__(self):
        return "<junk put there by the caller>"


JUNK = _Junk()
_RECENT = {}


def spoil(x):
    """The caller modifies the container it received (after having read it): nothing of that may show up anywhere."""
    try:
        if isinstance(x, list):
            x.append(JUNK)
            x.reverse()
        elif isinstance(x, set):
            x.add(JUNK)
        elif isinstance(x, dict):
            x[JUNK] = JUNK
    except Exception:  # noqa - read-only views are fine
        pass
    return x


def fresh(kind, obj, where=""):
    """`obj` was just returned by a call documented to build / return a NEW object of this kind: it must not be one
    of the objects returned by the previous such calls in this process (which the harness keeps alive, spoiled)."""
    from eglib.driver import Violation

    recent = _RECENT.setdefault(kind, [])
    for old in recent:
        if old is obj:
            raise Violation("returned-object-not-fresh:" + kind, f"{where}: the object returned is the very object an earlier, unrelated call returned (a shared result instead of a new one)")
    recent.append(obj)
    del recent[:-24]
    return obj
