"""
The library's query functions, called with the HARNESS's small integers for direction (0 FORWARD, 1 ANY,
2 BACKWARD) and unknown-class handling (0 NONNEIGHBOR, 1 NEIGHBOR, 2 ERROR), translated here - by NAME - into
the library's own constants.  The numeric values of edgegraph.traversal.helpers.DIR_SENS_* / LNK_UNKNOWN_* are
nobody's business: a library that renumbers them must not make a check fail.
"""


def _H():
    from edgegraph.traversal import helpers

    return helpers


def D(d):
    H = _H()
    return (H.DIR_SENS_FORWARD, H.DIR_SENS_ANY, H.DIR_SENS_BACKWARD)[d] if isinstance(d, int) and not isinstance(d, bool) and 0 <= d <= 2 else d


def U(u):
    H = _H()
    return (H.LNK_UNKNOWN_NONNEIGHBOR, H.LNK_UNKNOWN_NEIGHBOR, H.LNK_UNKNOWN_ERROR)[u] if isinstance(u, int) and not isinstance(u, bool) and 0 <= u <= 2 else u


def neighbors(vert, d=0, u=2, filterfunc=None):
    return _H().neighbors(vert, D(d), U(u), filterfunc)


def find_links(v1, v2, ds=True, u=2, filterfunc=None):
    return _H().find_links(v1, v2, ds, U(u), filterfunc)


def kw(d=None, u=None, **more):
    """Keyword arguments for the traversals / searches."""
    out = dict(more)
    if d is not None:
        out["direction_sensitive"] = D(d)
    if u is not None:
        out["unknown_handling"] = U(u)
    return out
