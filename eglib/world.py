"""
Plain-data histories and their interpreter on real edgegraph objects.

An op is a 4-tuple/list (name, i, j, k) of a name and three small ints.  Ints
are interpreted modulo the current pool sizes, so every op is always resolvable
("construction, not rejection"); `resolve` turns it into a *resolved op* with
concrete pool indices (or None when the op is inapplicable, e.g. no link
exists yet), `execute` performs it on the real objects.  Models interpret the
same resolved op.
"""
from __future__ import annotations

NONE_SLOT = 5  # end selector value (mod 6) that means "None"

STRUCT_OPS = ["edge", "v1", "v2", "link", "unlink"]
LOWLEVEL_OPS = ["al", "rl", "av", "uf", "newv"]
UNIVERSE_OPS = ["ua", "ur", "va", "vr", "newv_u", "newu"]
BAD_OPS = ["edge_bad"]


class World:
    def __init__(self, nv, nuni=0, vclasses=None, dupuid=False):
        from edgegraph.structure import Universe
        from eglib import classes

        self.classes = classes
        nplain = max(0, nv - nuni)
        # dupuid: distinct vertices carrying EQUAL uids (uids are given by the caller, the library never relies on
        # their uniqueness for structure)
        WC = classes.WORLD_VERTEX_CLASSES
        nwc = 4 if dupuid else 6            # value-hashing vertices only with unique uids
        if vclasses and any(x == 99 for x in vclasses):
            # opt-in (C10 with protocol >= 2): a class with a __slots__ attribute
            nwc, vclasses = 7, [6 if x == 99 else x for x in vclasses]
        self.vs = [classes.make_vertex(i, None if not vclasses else WC[vclasses[i % len(vclasses)] % nwc],
                                       uid=(7 + i % 2) if dupuid else None) for i in range(nplain)]
        for v in self.vs:
            if isinstance(v, classes.SlotVertex):
                v.tag = "slot-%d" % v.i
        self.vs += [Universe() for _ in range(nuni)]
        self.uidx = list(range(nplain, nplain + nuni))
        self.ls = []
        self.bulk_members = []   # vertices created by "bulk_u": members of universes but not part of the pool
        self.restrictive = set()  # pool indices of universes that were given restrictive (non-default) laws
        # documented parameter NAMES used as keywords (v.add_to_link(link=l), ...): only where a raising call is tolerated
        # (C01), so that a library renaming a parameter makes no check fail
        self.keyword_spelling = False

    @classmethod
    def from_pool(cls, vs, ls, uidx=()):
        """A world over already existing objects (e.g. un-pickled in another process)."""
        from eglib import classes

        w = cls.__new__(cls)
        w.classes = classes
        w.vs, w.ls, w.uidx, w.bulk_members, w.restrictive = list(vs), list(ls), list(uidx), [], set()
        w.keyword_spelling = False
        return w

    # ------------------------------------------------------------ resolution
    def end(self, x):
        return None if x % 6 == NONE_SLOT else x % len(self.vs)

    def resolve(self, op):
        name, i, j, k = op
        nv, nl = len(self.vs), len(self.ls)
        if name == "edge":
            return ("edge", k % 6, self.end(i), self.end(j))
        if name == "edge_bad":
            # ill-typed end: k selects the bad value and its position
            return ("edge_bad", (k // 2) % 6, i % nv, k % 2, j % 4)
        if name == "glink":
            # a generic n-ended Link (the documented _force_creation escape hatch) over 0..3 vertices
            return ("glink", [x % nv for x in (i, j, k)][: k % 4])
        if name == "edge_attr":
            # an edge constructed with a user attribute NAMED LIKE a read-only accessor
            return ("edge_attr", k % 6, i % nv, j % nv, (k // 6) % 3)
        if name == "newv_attr":
            if nv >= 7:
                return None
            return ("newv_attr", k % 3)
        if name in ("v1", "v2"):
            if not nl:
                return None
            # k % 4 == 3: the documented item spelling  lnk["v1"] = x  instead of  lnk.v1 = x
            return (name, i % nl, self.end(j), k % 4 == 3)
        if name == "link":
            # k: bit0 dontdup, then which function
            fn = ("link_directed", "link_undirected", "link_from_to")[(k >> 1) % 3]
            # dontdup True / False, or (when False, in a quarter of the cases) the argument is OMITTED (default False)
            return ("link", fn, i % nv, j % nv, (None if (not k & 1 and (i + j) % 4 == 3) else bool(k & 1)), (k >> 3) % 6)
        if name == "unlink":
            # destroy: False / True, or (k % 8 == 7) the argument is OMITTED (the documented default is True)
            return ("unlink", i % nv, j % nv, None if k % 8 == 7 else bool(k & 1))
        if name in ("al", "rl"):
            if not nl:
                return None
            return (name, i % nl, j % nv)
        if name in ("av", "uf"):
            if not nl:
                return None
            return (name, i % nl, self.end(j))
        if name == "newv":
            if not nl or nv >= 6:
                return None
            lst = sorted({i % nl, j % nl}) if k & 1 else [i % nl, j % nl][: 1 + (k >> 1) % 2]
            return ("newv", lst, (k >> 3) % 3)
        if name in ("ua", "ur", "va", "vr"):
            if not self.uidx:
                return None
            return (name, self.uidx[i % len(self.uidx)], j % nv)
        if name == "newv_u":
            if not self.uidx or nv >= 7:
                return None
            nu = len(self.uidx)
            lst = [self.uidx[x % nu] for x in (i, j, k)][: 1 + k % 3]
            return ("newv_u", lst, (k // 3) % 3)
        if name == "newu":
            if nv >= 7:
                return None
            lst = [x % nv for x in (i, j, k)][: k % 4]
            return ("newu", lst, (k // 4) % 3)
        if name == "bulk":
            # K parallel links from vs[i] to vs[j] at once (crosses size thresholds of per-vertex indexes)
            K = [7, 8, 9, 12, 33][k % 5]
            return ("bulk", i % nv, j % nv, (k // 5) % 6, K)
        if name == "bulk_big":
            # the same beyond the sizes at which per-vertex fast paths / thresholds are usually placed
            K = [63, 64, 65, 70, 128, 130][k % 6]
            return ("bulk", i % nv, j % nv, (k // 6) % 6, K)
        if name == "bulk_av":
            # ONE link lists one vertex very many times (Link.add_vertex called K times)
            if not nl:
                return None
            return ("bulk_av", i % nl, j % nv, [40, 600][k % 2])
        if name == "bulk_u":
            # K fresh vertices join universe u at once (crosses size thresholds of membership indexes)
            if not self.uidx:
                return None
            K = [7, 31, 32, 33, 40][k % 5]
            return ("bulk_u", self.uidx[i % len(self.uidx)], K)
        if name == "newu_big":
            # a universe constructed from K fresh vertices (+ up to two pool members) in ONE constructor call
            if nv >= 7:
                return None
            return ("newu_big", list(dict.fromkeys(x % nv for x in (i, j)))[: k % 3], [129, 150, 300][(k // 3) % 3])
        if name == "churn":
            # K times: the FIRST member of a universe leaves and joins again (from alternating sides)
            if not self.uidx:
                return None
            return ("churn", self.uidx[i % len(self.uidx)], [5, 34, 40, 70][k % 4])
        if name == "adj":
            # adjacency builders used as mutators of EXISTING vertices: k bit0 -> matrix form
            return ("adj", i % nv, j % nv, (k >> 1) % 6, k & 1)
        if name == "newv_u2":
            if not self.uidx or nv >= 6:
                return None
            nu = len(self.uidx)
            return ("newv_u2", list(dict.fromkeys(self.uidx[x % nu] for x in (i, j, k)))[: 1 + k % 3])
        if name == "lawsnone":
            if not self.uidx:
                return None
            # k % 4: 0 -> None, 1 -> default laws, 2 / 3 -> restrictive laws
            return ("lawsnone", self.uidx[i % len(self.uidx)], k % 4)
        if name == "newu2":
            if nv >= 6:
                return None
            return ("newu2", list(dict.fromkeys(x % nv for x in (i, j, k)))[: 1 + k % 3])
        if name == "queryn":
            # the first n (1..48) of a fixed list of distinct neighbors() questions, asked of ONE vertex
            return ("queryn", i % nv, 1 + k % 48)
        if name in ("flag", "query", "repickle", "dumponly"):
            return (name, k)
        raise ValueError(f"unknown op {name}")

    # ------------------------------------------------------------- execution
    def v(self, idx):
        return None if idx is None else self.vs[idx]

    def execute(self, r):
        """Perform a resolved op on the real objects; returns its return value."""
        from edgegraph.builder import explicit
        from edgegraph.structure import Universe, Vertex

        C = self.classes
        name = r[0]
        if name == "edge":
            l = C.LINK_CLASSES[r[1]](self.v(r[2]), self.v(r[3]))
            self.ls.append(l)
            return l
        if name == "edge_bad":
            bad = [3, "v", self.ls[0] if self.ls else 4.5, object()][r[4]]
            good = self.vs[r[2]]
            args = (bad, good) if r[3] == 0 else (good, bad)
            return C.LINK_CLASSES[r[1]](*args)
        if name == "glink":
            from edgegraph.structure import Link

            l = Link(vertices=[self.vs[x] for x in r[1]], _force_creation=True)
            self.ls.append(l)
            return l
        if name == "edge_attr":
            l = C.LINK_CLASSES[r[1]](self.vs[r[2]], self.vs[r[3]], attributes={("vertices", "universes", "uid")[r[4]]: ()})
            self.ls.append(l)
            return l
        if name == "newv_attr":
            nvx = Vertex(attributes={("links", "universes", "uid")[r[1]]: (), "i": len(self.vs)})
            self.vs.append(nvx)
            return nvx
        if name in ("v1", "v2"):
            if len(r) > 3 and r[3]:
                self.ls[r[1]][name] = self.v(r[2])      # BaseObject item access == attribute access
            else:
                setattr(self.ls[r[1]], name, self.v(r[2]))
            return None
        if name == "link":
            _, fn, a, b, dd, ci = r
            kw = {} if dd is None else {"dontdup": dd}
            if fn == "link_from_to":
                out = explicit.link_from_to(self.vs[a], C.LINK_CLASSES[ci], self.vs[b], **kw)
            else:
                out = getattr(explicit, fn)(self.vs[a], self.vs[b], **kw)
            if all(out is not x for x in self.ls):
                self.ls.append(out)
            return out
        if name == "unlink":
            if r[3] is None:
                return explicit.unlink(self.vs[r[1]], self.vs[r[2]])
            if (r[1] + r[2]) % 2:
                return explicit.unlink(self.vs[r[1]], self.vs[r[2]], r[3])        # `destroy` given positionally
            return explicit.unlink(self.vs[r[1]], self.vs[r[2]], destroy=r[3])
        if name == "bulk":
            _, a, b, ci, K = r
            for _ in range(K):
                self.ls.append(C.LINK_CLASSES[ci](self.vs[a], self.vs[b]))
            return None
        if name == "newu_big":
            from edgegraph.structure import Vertex as _V

            fresh = [_V(attributes={"i": 7000 + len(self.bulk_members) + n}) for n in range(r[2])]
            self.bulk_members.extend(fresh)
            nu = Universe(vertices=fresh + [self.vs[x] for x in r[1]])
            self.vs.append(nu)
            self.uidx.append(len(self.vs) - 1)
            return nu
        if name == "churn":
            U = self.vs[r[1]]
            for n in range(r[2]):
                mem = U.vertices
                if not mem:
                    break
                m = mem[0]
                if n % 2:
                    m.remove_from_universe(U)
                    m.add_to_universe(U)
                else:
                    U.remove_vertex(m)
                    U.add_vertex(m)
            return None
        if name == "bulk_av":
            for _ in range(r[3]):
                self.ls[r[1]].add_vertex(self.vs[r[2]])
            return None
        if name == "bulk_u":
            from edgegraph.structure import Vertex as _V

            _, u, K = r
            extra = [_V(attributes={"i": 5000 + n}) for n in range(K)]
            for x in extra:
                if len(self.bulk_members) % 2:
                    self.vs[u].add_vertex(x)
                else:
                    x.add_to_universe(self.vs[u])
                self.bulk_members.append(x)
            return None
        if name == "adj":
            from edgegraph.builder import adjlist, adjmatrix

            _, a, b, ci, matrix = r
            before = {id(l) for v in self.vs for l in v.links}
            if matrix:
                side = [self.vs[a]] if a == b else [self.vs[a], self.vs[b]]
                cells = [[1]] if a == b else [[0, 1], [1, 0]]
                out = adjmatrix.load_adj_matrix(cells, side, C.LINK_CLASSES[ci])
            else:
                out = adjlist.load_adj_dict({self.vs[a]: [self.vs[b], self.vs[a]]}, C.LINK_CLASSES[ci])
            for v in (self.vs[a], self.vs[b]):
                for l in v.links:
                    if id(l) not in before and all(l is not x for x in self.ls):
                        self.ls.append(l)
            return out
        if name == "al":
            if self.keyword_spelling and (r[1] + r[2]) % 2:
                return self.vs[r[2]].add_to_link(link=self.ls[r[1]])            # the parameter spelled as a keyword
            return self.vs[r[2]].add_to_link(self.ls[r[1]])
        if name == "rl":
            if self.keyword_spelling and (r[1] + r[2]) % 2:
                return self.vs[r[2]].remove_from_link(link=self.ls[r[1]])
            return self.vs[r[2]].remove_from_link(self.ls[r[1]])
        if name == "av":
            if self.keyword_spelling and r[2] is not None and (r[1] + r[2]) % 2:
                return self.ls[r[1]].add_vertex(new=self.v(r[2]))
            return self.ls[r[1]].add_vertex(self.v(r[2]))
        if name == "uf":
            if self.keyword_spelling and r[2] is not None and (r[1] + r[2]) % 2:
                return self.ls[r[1]].unlink_from(kill=self.v(r[2]))
            return self.ls[r[1]].unlink_from(self.v(r[2]))
        if name == "newv":
            arg = [self.ls[x] for x in r[1]]
            arg = (arg, tuple(arg), (x for x in arg))[r[2] if len(r) > 2 else 0]    # any iterable, also one-shot
            nvx = Vertex(links=arg, attributes={"i": len(self.vs)})
            self.vs.append(nvx)
            return nvx
        kwspell = (self.keyword_spelling and (r[1] + r[2]) % 2) if name in ("ua", "ur", "va", "vr") else 0     # parameters spelled as keywords
        if name == "ua":
            return self.vs[r[1]].add_vertex(vert=self.vs[r[2]]) if kwspell else self.vs[r[1]].add_vertex(self.vs[r[2]])
        if name == "ur":
            return self.vs[r[1]].remove_vertex(vert=self.vs[r[2]]) if kwspell else self.vs[r[1]].remove_vertex(self.vs[r[2]])
        if name == "va":
            return self.vs[r[2]].add_to_universe(universe=self.vs[r[1]]) if kwspell else self.vs[r[2]].add_to_universe(self.vs[r[1]])
        if name == "vr":
            return self.vs[r[2]].remove_from_universe(universe=self.vs[r[1]]) if kwspell else self.vs[r[2]].remove_from_universe(self.vs[r[1]])
        if name == "newv_u":
            arg = [self.vs[x] for x in r[1]]
            # the argument may be any iterable: list, tuple, or a one-shot iterator
            arg = (arg, tuple(arg), iter(arg))[r[2] if len(r) > 2 else 0]
            nvx = Vertex(universes=arg, attributes={"i": len(self.vs)})
            self.vs.append(nvx)
            return nvx
        if name == "newv_u2":
            shared = [self.vs[x] for x in r[1]]          # ONE duplicate-free list object given to two constructors
            for _ in range(2):
                self.vs.append(Vertex(universes=shared, attributes={"i": len(self.vs)}))
            return None
        if name == "lawsnone":
            from edgegraph.structure.universe import UniverseLaws

            # the laws of a universe are taken away (or given back): membership calls must not care
            if r[2] >= 2:
                self.vs[r[1]].laws = UniverseLaws(cycles=False, multipath=False, mixed_links=False, multiverse=False,
                                                  **({"edge_whitelist": {}} if r[2] == 3 else {}))
                self.restrictive.add(r[1])
            else:
                self.vs[r[1]].laws = None if r[2] == 0 else UniverseLaws()
                self.restrictive.discard(r[1])
            return None
        if name == "newu2":
            shared = [self.vs[x] for x in r[1]]          # ONE duplicate-free list object given to two constructors
            for _ in range(2):
                nu = Universe(vertices=shared)
                self.vs.append(nu)
                self.uidx.append(len(self.vs) - 1)
            return None
        if name == "newu":
            arg = [self.vs[x] for x in r[1]]
            arg = (arg, tuple(arg), (x for x in arg))[r[2] if len(r) > 2 else 0]
            nu = Universe(vertices=arg)
            self.vs.append(nu)
            self.uidx.append(len(self.vs) - 1)
            return nu
        raise ValueError(name)

    # ------------------------------------------------------------- snapshots
    def index_maps(self):
        vi = {id(v): i for i, v in enumerate(self.vs)}
        li = {id(l): i for i, l in enumerate(self.ls)}
        return vi, li

    def snapshot(self):
        """Observable structure through public accessors only, as pool indices."""
        vi, li = self.index_maps()
        bi = {id(x): n for n, x in enumerate(self.bulk_members)}
        g = lambda m, o: None if o is None else m.get(id(o), "?")
        from eglib.h import spoil

        def rd(container):
            # read a container the library handed out, then scribble on it (it is the caller's)
            items = list(container)
            spoil(container)
            return items

        out = {
            "links_of": [[g(li, l) for l in v.links] for v in self.vs],
            "unis_of": [[g(vi, u) for u in rd(v.universes)] for v in self.vs],
            "ends": [[g(vi, x) for x in l.vertices] for l in self.ls],
            "members": {str(u): [g(vi, x) if id(x) in vi else ("b%d" % bi[id(x)] if id(x) in bi else "?") for x in rd(self.vs[u].vertices)] for u in self.uidx},
        }
        return out
