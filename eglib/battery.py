"""
The query battery: every structural query the library offers, evaluated on a
pool (vs, ls) and returned as plain index data, exceptions as type names.

Filters are module-level callables (picklable by reference, so warm neighbor
caches keyed by them survive a pickle round trip) that consult the *current*
index maps set by `evaluate`.
"""
from eglib import h
from eglib import classes as C

_VI = {}
_LI = {}


def _vix(v):
    return -1 if v is None else _VI.get(id(v), -2)


def f_accept(e, v):
    return True


def f_select(e, v):
    return (_LI.get(id(e), 0) + _vix(v)) % 2 == 0


def f_select1(e):
    return _LI.get(id(e), 0) % 2 == 0


def r_select(v):
    return _vix(v) % 3 != 1


MF = C.MethodFilter(f_select)
MF2 = C.MethodFilter(f_accept)   # same class, same method code, different behaviour
UF = C.UnhashableFilter(f_select)

DIRS = (0, 1, 2)
UNKS = (0, 1, 2)


def _call(fn, conv):
    try:
        raw = fn()
        out = conv(raw)
        h.spoil(raw)        # whatever container came back is the caller's to modify
        return out
    except RecursionError:
        return "exc:RecursionError"
    except Exception as e:  # noqa
        return "exc:" + type(e).__name__


def evaluate(vs, ls, unis=(), level=2, unhashable=True, searches=True):
    """
    -> list of (label, value).  level 1: neighbors only; level 2: + traversals,
    searches, find_links.
    """
    from edgegraph.traversal import breadthfirst as B
    from edgegraph.traversal import depthfirst as D
    from edgegraph.traversal import helpers

    global _VI, _LI
    _VI = {id(v): i for i, v in enumerate(vs)}
    _LI = {id(l): i for i, l in enumerate(ls)}
    vl = lambda seq: [_vix(x) for x in seq]
    ll = lambda seq: sorted(_LI.get(id(x), -2) for x in seq)
    out = []
    filters = [("none", None), ("accept", f_accept), ("select", f_select), ("method", None), ("unhashable", UF if unhashable else None)]
    for i, v in enumerate(vs):
        for d in DIRS:
            for u in UNKS:
                for fname, f in filters:
                    if fname == "method":
                        f = MF.accept  # a fresh, equal bound method at every access
                    elif fname == "unhashable" and f is None:
                        continue
                    out.append((f"nb v{i} d{d} u{u} {fname}", _call(lambda: h.neighbors(v, d, u, f), vl)))
        # bound methods of two differently configured objects of one class
        out.append((f"nb v{i} d1 u1 method-of-other-instance", _call(lambda: h.neighbors(v, 1, 1, MF2.accept), vl)))
        out.append((f"nb v{i} d1 u1 method-again", _call(lambda: h.neighbors(v, 1, 1, MF.accept), vl)))
        # two short-lived callables with different behaviour (a cache keyed on anything but the
        # callable itself, e.g. its id(), would confuse them)
        out.append((f"nb v{i} d1 u1 fresh-accept", _call(lambda: h.neighbors(v, 1, 1, lambda e, x: True), vl)))
        out.append((f"nb v{i} d1 u1 fresh-reject", _call(lambda: h.neighbors(v, 1, 1, lambda e, x: False), vl)))
        if unhashable:
            # the same with short-lived UNHASHABLE callables (and their bound methods)
            out.append((f"nb v{i} d1 u1 fresh-unhashable-accept", _call(lambda: h.neighbors(v, 1, 1, C.UnhashableFilter(f_accept)), vl)))
            out.append((f"nb v{i} d1 u1 fresh-unhashable-select", _call(lambda: h.neighbors(v, 1, 1, C.UnhashableFilter(f_select)), vl)))
            out.append((f"nb v{i} d0 u1 fresh-unhashable-method", _call(lambda: h.neighbors(v, 0, 1, C.UnhashableFilter(f_select).__call__), vl)))
            out.append((f"nb v{i} d0 u1 fresh-unhashable-method2", _call(lambda: h.neighbors(v, 0, 1, C.UnhashableFilter(f_accept).__call__), vl)))
    if level < 2:
        return out
    universes = [None] + list(unis)
    for ui, uni in enumerate(universes):
        for i, v in enumerate(vs):
            if uni is not None and all(v is not x for x in uni.vertices):
                continue
            for d, u, via, res in ((0, 0, None, None), (1, 1, f_select, None), (2, 1, None, r_select), (0, 2, None, None)):
                kw = h.kw(d, u, ff_via=via, ff_result=res)
                tag = f"U{ui} v{i} d{d} u{u} via={'sel' if via else '-'} res={'sel' if res else '-'}"
                out.append(("bft " + tag, _call(lambda: B.bft(uni, v, **kw), vl)))
                out.append(("dft_recursive " + tag, _call(lambda: D.dft_recursive(uni, v, **kw), vl)))
                out.append(("dft_iterative " + tag, _call(lambda: D.dft_iterative(uni, v, **kw), vl)))
            if searches:
                for val in (0, 2, 99):
                    one = lambda r: _vix(r) if r is not None else None
                    out.append((f"bfs U{ui} v{i} i=={val}", _call(lambda: B.bfs(uni, v, "i", val), one)))
                    out.append((f"dfs_recursive U{ui} v{i} i=={val}", _call(lambda: D.dfs_recursive(uni, v, "i", val), one)))
                    out.append((f"dfs_iterative U{ui} v{i} i=={val}", _call(lambda: D.dfs_iterative(uni, v, "i", val), one)))
    for i, a in enumerate(vs):
        for j, b in enumerate(vs):
            for ds, u, f in ((True, 1, None), (False, 0, f_select1), (True, 2, None)):
                out.append((f"find_links v{i} v{j} ds={ds} u{u} {'sel' if f else '-'}", _call(lambda: h.find_links(a, b, ds, u, f), ll)))
    return out


def f_anchor(anchor, e, v):
    """Used through functools.partial(f_anchor, <a vertex>): a filter object that HOLDS a graph object."""
    return anchor is not None


class AnchorFilter:
    """A filter whose bound method holds on to a graph object."""

    def __init__(self, anchor):
        self.anchor = anchor

    def accept(self, e, v):
        return self.anchor is not None


def f_q4(e, v):
    return (_LI.get(id(e), 0) + 2 * _vix(v)) % 3 != 0


def f_q5(e, v):
    return _LI.get(id(e), 0) % 3 != 1


def partial(vs, ls, i, n):
    """The first n of a fixed list of 54 distinct (cacheable) neighbors() questions about vs[i]."""
    from edgegraph.traversal import helpers

    global _VI, _LI
    _VI = {id(v): k for k, v in enumerate(vs)}
    _LI = {id(l): k for k, l in enumerate(ls)}
    vl = lambda seq: [_vix(x) for x in seq]
    qs = [(d, u, fn, f) for fn, f in (("none", None), ("accept", f_accept), ("select", f_select), ("q4", f_q4), ("q5", f_q5), ("method", None)) for d in DIRS for u in UNKS]
    out = []
    for d, u, fn, f in qs[:n]:
        if fn == "method":
            f = MF.accept
        out.append((f"nb v{i} d{d} u{u} {fn}", _call(lambda: h.neighbors(vs[i], d, u, f), vl)))
    return out


def first_difference(a, b):
    if len(a) != len(b):
        return f"battery lengths differ: {len(a)} vs {len(b)}"
    for (la, va), (lb, vb) in zip(a, b):
        if la != lb or va != vb:
            return f"{la}: expected {va!r}, got {vb!r}" if la == lb else f"labels differ: {la} / {lb}"
    return None
