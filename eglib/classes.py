"""
Importable subclasses used by generated cases (importable so that pickles made
by C10/C05 can be loaded in a fresh interpreter).  Import only after
driver.setup_paths().
"""
from edgegraph.structure import (
    DirectedEdge,
    TwoEndedLink,
    UnDirectedEdge,
    Universe,
    Vertex,
)


Vertex = Vertex  # re-exported for eglib.graphs


class SubVertex(Vertex):
    kind = "k"      # a class-level constant (title formats may refer to it just like to an instance attribute)

    @property
    def code(self):
        """A normalising property that keeps its raw value in the instance dictionary under its own name (a data
        descriptor wins over the instance dictionary, so `v.code` / `v["code"]` are the NORMALISED value)."""
        raw = self.__dict__.get("code")
        return None if raw is None else raw.upper()

    @code.setter
    def code(self, raw):
        self.__dict__["code"] = raw


class FalsyVertex(Vertex):
    """A vertex whose truth value is False (C08: answers must not depend on it)."""

    def __bool__(self):
        return False


class EmptyLenVertex(Vertex):
    """A container-like vertex (a folder, a tree node): it has a length (0, so it is falsy) and can be iterated over
    (it yields its - no - children).  It is still ONE vertex wherever a vertex is expected."""

    def __len__(self):
        return 0

    def __iter__(self):
        return iter(())


class EqVertex(Vertex):
    """
    Value equality: every EqVertex equals every other (and hashes alike).  Only
    used where the statement speaks of identity ("the opposite end") and the
    graph is built by constructors alone (C04/C09); the structure API's
    `in`-on-list idiom makes no promise for such classes.
    """

    def __eq__(self, other):
        return isinstance(other, EqVertex)

    def __hash__(self):
        return 7


class CountedUniverse(Universe):
    """A universe that is falsy while empty (defines __len__)."""

    def __len__(self):
        return len(self.vertices)


class SubDirected(DirectedEdge):
    pass


class SubUndirected(UnDirectedEdge):
    pass


class Mixin:
    """A foreign first base: the edgegraph ancestor is then NOT on the __base__ chain, only on the MRO."""


class MixedVertex(Mixin, SubVertex):
    pass


class MixedDirected(Mixin, SubDirected):
    pass


class UidHashVertex(Vertex):
    """Equality and hash by uid (unique uids: equal means identical).  Hashing needs the instance's state."""

    def __eq__(self, other):
        return isinstance(other, UidHashVertex) and other.uid == self.uid

    def __hash__(self):
        return hash(self.uid)


class SlotVertex(Vertex):
    """A subclass that keeps one attribute in a __slots__ slot (it still has a __dict__ from Vertex)."""

    __slots__ = ("tag",)


class HotVertex(Vertex):
    """Neighbor caching switched on for this subclass only (the program-wide flag may be off)."""

    NEIGHBOR_CACHING = True


class DefaultAttrVertex(Vertex):
    """A sparse-record style vertex: unknown attributes read as None (hasattr() is always true).  C14 only."""

    def __getattr__(self, name):
        if name.startswith("__") and name.endswith("__"):
            raise AttributeError(name)
        return None


class StrVertex(Vertex):
    """__str__ / __format__ differ from __repr__ (text outputs are specified in terms of repr)."""

    def __str__(self):
        return "friendly-%s" % getattr(self, "i", "?")

    def __repr__(self):
        return "<StrVertex %s>" % getattr(self, "i", "?")


class ViewVertex(Vertex):
    """
    Overrides the public `links` accessor with a pure view (same links, reversed order).  Everything the
    statements say about "the order of v.links" refers to this public accessor.
    """

    @property
    def links(self):
        return tuple(reversed(Vertex.links.fget(self)))


def _twin():
    class SubVertex(Vertex):
        """Another class that merely shares its __name__ with the module-level SubVertex."""

    return SubVertex


SubVertexTwin = _twin()


class OddLink(TwoEndedLink):
    """A two-ended link that is neither directed nor undirected ('unknown' class)."""


class SubOdd(OddLink):
    pass


class OddDirected(OddLink, DirectedEdge):
    """Direction-less user base class first, DirectedEdge second: it IS a directed edge."""


class BothEdge(UnDirectedEdge, DirectedEdge):
    """Derives from both edge classes, undirected first: the library treats it as undirected."""


class EmptyDirected(DirectedEdge):
    """A directed edge whose truth value is False (container-like link with __len__ == 0)."""

    def __len__(self):
        return 0


class RoadLink(DirectedEdge):
    """A directed edge whose constructor names its two positional parameters differently."""

    def __init__(self, origin=None, destination=None, *, uid=None, attributes=None):
        super().__init__(origin, destination, uid=uid, attributes=attributes)


class BareEdge(DirectedEdge):
    """A directed edge whose constructor takes the two ends and nothing else (builders call `lnktype(v1, v2)`)."""

    def __init__(self, v1=None, v2=None):
        super().__init__(v1, v2)


# a DIFFERENT class with the same module and qualified name as SubDirected, but of another kind (a class statement
# executed again with another base, as happens with factories / reloaded plugins)
SubDirectedTwin = type("SubDirected", (UnDirectedEdge,), {"__module__": __name__, "__qualname__": "SubDirected"})

LINK_CLASSES = [DirectedEdge, UnDirectedEdge, SubDirected, SubUndirected, OddLink, SubOdd, MixedDirected, OddDirected, SubDirectedTwin,
                BothEdge, EmptyDirected, RoadLink, BareEdge]
LINK_NAMES = [c.__name__ for c in LINK_CLASSES]
KIND = {
    DirectedEdge: "D",
    SubDirected: "D",
    UnDirectedEdge: "U",
    SubUndirected: "U",
    OddLink: "X",
    SubOdd: "X",
    MixedDirected: "D",
    OddDirected: "D",
    SubDirectedTwin: "U",
    BothEdge: "U",
    EmptyDirected: "D",
    RoadLink: "D",
    BareEdge: "D",
}
VERTEX_CLASSES = [Vertex, SubVertex, FalsyVertex, EmptyLenVertex, MixedVertex, SubVertexTwin, ViewVertex, HotVertex, StrVertex, Universe]
# classes usable in histories (importable: histories are pickled; insertion-ordered `links`)
WORLD_VERTEX_CLASSES = [Vertex, SubVertex, FalsyVertex, EmptyLenVertex, MixedVertex, UidHashVertex, SlotVertex]


def kind_of(link):
    if isinstance(link, UnDirectedEdge):
        return "U"
    if isinstance(link, DirectedEdge):
        return "D"
    return "X"


def make_vertex(i, vcls=None, uid=None):
    """Deterministic vertex class per pool index unless given."""
    if vcls is None:
        vcls = VERTEX_CLASSES[(1 if i % 3 == 1 else 0) if i % 4 != 3 else 2]
    return vcls(attributes={"i": i}, uid=uid)


class UnhashableFilter:
    """A callable that cannot be hashed (C05: must behave the same cached or not)."""

    __hash__ = None

    def __init__(self, fn):
        self.fn = fn

    def __call__(self, *a):
        return self.fn(*a)


class FalsyFilter:
    """A callable filter object whose truth value is False (e.g. an empty allow-list)."""

    def __init__(self, fn):
        self.fn = fn

    def __len__(self):
        return 0

    def __call__(self, *a):
        return self.fn(*a)


class MethodFilter:
    """`obj.accept` builds a fresh-but-equal bound method at every access."""

    def __init__(self, fn):
        self.fn = fn

    def accept(self, *a):
        return self.fn(*a)
