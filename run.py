#!/venv/bin/python
"""
Single entry point:  run.py <ID> --tier quick|thorough [--replay FILE] [--seed N]

exit 0  property held on everything explored (KNOWN-FINDING lines allowed)
exit 1  at least one line `VIOLATION property=<id> replay=<path>`
exit 2  harness error (never reported as a violation)
"""
import argparse
import os
import sys

HERE = os.path.dirname(os.path.abspath(__file__))


def main():
    ap = argparse.ArgumentParser()
    ap.add_argument("prop")
    ap.add_argument("--tier", default=os.environ.get("VERIF_TIER", "quick"),
                    choices=["quick", "thorough"])
    ap.add_argument("--replay")
    ap.add_argument("--seed", type=int, default=None)
    a = ap.parse_args()

    # deterministic, side-effect-free interpreter: fixed hash seed, no .pyc files
    if os.environ.get("PYTHONHASHSEED") != "0" or os.environ.get("PYTHONDONTWRITEBYTECODE") != "1":
        env = dict(os.environ, PYTHONHASHSEED="0", PYTHONDONTWRITEBYTECODE="1")
        os.execve(sys.executable, [sys.executable] + sys.argv, env)

    if a.replay and not sys.flags.optimize:
        # a replay file written by the optimised-interpreter pass is replayed in an interpreter started with -O
        try:
            import json

            if "-O" in (json.load(open(a.replay)).get("python_flags") or []):
                os.execve(sys.executable, [sys.executable, "-O"] + sys.argv, dict(os.environ))
        except (OSError, ValueError, AttributeError):
            pass

    sys.path.insert(0, HERE)
    from eglib import driver

    seed = a.seed if a.seed is not None else int(os.environ.get("VERIF_SEED", "1") or 1)
    modname = a.prop.lower()
    try:
        if a.replay:
            rc = driver.run_replay(modname, a.replay)
        else:
            rc = driver.main(modname, a.tier, seed)
    except driver.HarnessError as e:
        print(f"HARNESS ERROR: {e}", file=sys.stderr)
        rc = 2
    except Exception:  # noqa
        import traceback

        traceback.print_exc()
        rc = 2
    sys.stdout.flush()
    sys.exit(rc)


if __name__ == "__main__":
    main()
