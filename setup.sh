#!/bin/sh
# Offline setup: make sure hypothesis is importable by /venv/bin/python.
# Nothing is fetched from a network; wheels come from /opt/veriftools/wheels.
set -e
cd "$(dirname "$0")"
if PYTHONPATH="$PWD/.deps" /venv/bin/python -c 'import hypothesis, dill, pyvis' 2>/dev/null; then
    echo "setup: hypothesis/dill/pyvis importable"
else
    echo "setup: installing hypothesis into /verif/.deps from the offline wheelhouse"
    PIP_NO_INDEX=1 /venv/bin/pip install --no-index --find-links /opt/veriftools/wheels \
        --target "$PWD/.deps" hypothesis
    PYTHONPATH="$PWD/.deps" /venv/bin/python -c 'import hypothesis'
fi
# atheris (coverage-guided extra engine of the thorough tier of C01/C03/C05); optional: checks run without it
if ! PYTHONPATH="$PWD/.deps" /venv/bin/python -c 'import atheris' 2>/dev/null; then
    PIP_NO_INDEX=1 /venv/bin/pip install --no-index --find-links /opt/veriftools/wheels \
        --target "$PWD/.deps" atheris >/dev/null 2>&1 || echo "setup: atheris not installed (thorough tier will skip the fuzzing phase)"
fi
mkdir -p evidence replays
echo "setup: ok"
