import os, sys
from hypothesis import given, settings, seed, strategies as st, HealthCheck, Phase
from edgegraph.structure import *
from edgegraph.builder import explicit
from edgegraph.traversal import helpers, breadthfirst, depthfirst
class Odd(TwoEndedLink): pass
class SubD(DirectedEdge): pass
CLS=[DirectedEdge, UnDirectedEdge, Odd, SubD]
NV=4
F_EDGE = lambda e,v: True
FILTERS=[None, F_EDGE]
def run(ops, flagged):
    Vertex.NEIGHBOR_CACHING=False
    vs=[Vertex(attributes={'i':i}) for i in range(NV)]; ls=[]
    idx={id(v):i for i,v in enumerate(vs)}
    out=[]
    def q():
        res=[]
        for v in vs:
            for d in (0,1,2):
                for u in (0,1,2):
                    for f in FILTERS:
                        try: r=[idx.get(id(x),'?') if x is not None else None for x in helpers.neighbors(v,d,u,f)]
                        except Exception as e: r=type(e).__name__
                        res.append(r)
            for fn in (breadthfirst.bft, depthfirst.dft_recursive, depthfirst.dft_iterative):
                try: r=[idx[id(x)] for x in fn(None, v, direction_sensitive=1, unknown_handling=1)]
                except Exception as e: r=type(e).__name__
                res.append(r)
        return res
    for op in ops:
        c,i,j,k=op
        try:
            if c==0: ls.append(CLS[k%4](vs[i%NV], vs[j%NV]))
            elif c==1 and ls: ls[i%len(ls)].v1 = vs[j%NV] if k%5 else None
            elif c==2 and ls: ls[i%len(ls)].v2 = vs[j%NV] if k%5 else None
            elif c==3: explicit.unlink(vs[i%NV], vs[j%NV])
            elif c==4 and ls: ls[i%len(ls)].unlink_from(vs[j%NV])
            elif c==5 and ls: ls[i%len(ls)].add_vertex(vs[j%NV])
            elif c==6 and ls: vs[j%NV].remove_from_link(ls[i%len(ls)])
            elif c==7 and ls: vs[j%NV].add_to_link(ls[i%len(ls)])
            elif c==8: 
                if flagged: Vertex.NEIGHBOR_CACHING = bool(k%2)
            elif c==9: out.append(q())
            elif c==10: explicit.link_from_to(vs[i%NV], CLS[k%4], vs[j%NV], dontdup=True)
        except (IndexError,) as e:
            out.append('exc')
    out.append(q())
    Vertex.NEIGHBOR_CACHING=False
    return out
@seed(int(os.environ.get('VERIF_SEED','0')))
@settings(max_examples=int(os.environ.get('N','3000')), database=None, deadline=None, suppress_health_check=list(HealthCheck))
@given(st.lists(st.tuples(st.sampled_from([0,0,0,1,2,3,4,5,6,7,8,8,9,9,9,10]), st.integers(0,5), st.integers(0,5), st.integers(0,9)), max_size=25))
def t(ops):
    a=run(ops, False); b=run(ops, True)
    assert a==b
t(); print('ok')
