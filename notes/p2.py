import os
from hypothesis import given, settings, seed, strategies as st, HealthCheck
from edgegraph.structure import *
from edgegraph.structure import singleton as S
@seed(int(os.environ.get('VERIF_SEED','0')))
@settings(max_examples=int(os.environ.get('N','5000')), database=None, deadline=None, suppress_health_check=list(HealthCheck))
@given(st.lists(st.tuples(st.integers(0,5), st.integers(0,4), st.integers(0,4), st.lists(st.integers(0,4),max_size=4)), max_size=30))
def t2(ops):
    pool=[Universe(),Universe(),Vertex(),Vertex()]  # idx 0,1 universes
    mem={0:[],1:[]}; uni_of={i:[] for i in range(4)}
    def P(i): return pool[i%len(pool)]
    def chk():
        for ui,u in enumerate(pool):
            if not isinstance(u,Universe): continue
            got=[pool.index(x) for x in u.vertices]
            assert got==mem[ui],('order',ui,got,mem[ui])
            assert len(set(got))==len(got)
        for vi,v in enumerate(pool):
            got=[pool.index(x) for x in v.universes]
            assert got==uni_of[vi],('unis',vi,got,uni_of[vi])
    unis=lambda: [i for i,x in enumerate(pool) if isinstance(x,Universe)]
    for c,i,j,lst in ops:
        U=unis(); ui=U[i%len(U)]; vi=j%len(pool)
        if c in (0,1):
            (pool[ui].add_vertex(pool[vi]) if c==0 else pool[vi].add_to_universe(pool[ui]))
            if vi not in mem[ui]: mem[ui].append(vi); uni_of[vi].append(ui)
        elif c in (2,3):
            try:
                (pool[ui].remove_vertex(pool[vi]) if c==2 else pool[vi].remove_from_universe(pool[ui]))
                assert vi in mem[ui], 'no raise'
                mem[ui].remove(vi); uni_of[vi].remove(ui)
            except ValueError:
                assert vi not in mem[ui]
        elif c==4 and len(pool)<8:
            us=[U[x%len(U)] for x in lst]; v=Vertex(universes=[pool[x] for x in us]); pool.append(v); n=len(pool)-1
            uni_of[n]=list(dict.fromkeys(us))
            for x in uni_of[n]: mem[x].append(n)
        elif c==5 and len(pool)<8:
            ms=[x%len(pool) for x in lst]; u=Universe(vertices=[pool[x] for x in ms]); pool.append(u); n=len(pool)-1
            mem[n]=list(dict.fromkeys(ms)); uni_of[n]=[]
            for x in mem[n]: uni_of[x].append(n)
        chk()
t2(); print('ok C02')

@seed(int(os.environ.get('VERIF_SEED','0')))
@settings(max_examples=int(os.environ.get('N','5000')), database=None, deadline=None, suppress_health_check=list(HealthCheck))
@given(st.lists(st.tuples(st.integers(0,6), st.integers(0,4), st.sampled_from([-1,-2,0,1,'a',(1,2)]), st.booleans()), max_size=25))
def t17(ops):
    M=S.semi_singleton_metaclass()
    inits=[]
    class A(metaclass=M):
        def __init__(self,*a,**k): inits.append(self)
    class B(metaclass=M):
        def __init__(self,*a,**k): inits.append(self)
    class C(A): pass
    class Dd(metaclass=S.semi_singleton_metaclass()):
        def __init__(self,*a,**k): inits.append(self)
    class E(metaclass=S.semi_singleton_metaclass(lambda a,k: (a[0] if a and isinstance(a[0],int) else 0)%3)):
        def __init__(self,*a,**k): inits.append(self)
    CL=[A,B,C,Dd,E]; model={c:{} for c in CL}; insts=[]
    def key(c,a,kw):
        if c is E: return (a if isinstance(a,int) else 0)%3
        return (a, kw)
    for op,ci,a,kw in ops:
        c=CL[ci%5]; kwargs={'x':1,'y':2} if kw else {}
        k=key(c,a,kw)
        if op<=2:
            n0=len(inits); o=(c(a,**kwargs) if op else c(a, **dict(reversed(list(kwargs.items())))))
            if k in model[c]: assert o is model[c][k] and len(inits)==n0, ('reuse',c.__name__,a)
            else:
                assert len(inits)==n0+1 and type(o) is c and all(o is not x for x in insts), ('new',c.__name__,a,type(o).__name__)
                model[c][k]=o; insts.append(o)
        elif op==3 and insts:
            o=insts[ci%len(insts)]; S.add_mapping(o,a,**kwargs); model[type(o)][key(type(o),a,kw)]=o
        elif op==4:
            try:
                S.drop_semi_singleton_mapping(c,a,**kwargs); assert k in model[c]; del model[c][k]
            except KeyError: assert k not in model[c]
        elif op==5:
            n0=len(inits); r=S.check_semi_singleton_entry_exists(c,a,**kwargs); assert r is model[c].get(k) and len(inits)==n0
        elif op==6:
            S.clear_semi_singleton(c); model[c]={}
        for cc in CL:
            got=set(map(id,S.get_all_semi_singleton_instances(cc))); exp=set(map(id,model[cc].values()))
            assert got==exp, ('getall',cc.__name__)
t17(); print('ok C17')

@seed(int(os.environ.get('VERIF_SEED','0')))
@settings(max_examples=int(os.environ.get('N','5000')), database=None, deadline=None, suppress_health_check=list(HealthCheck))
@given(st.lists(st.tuples(st.integers(0,2), st.integers(0,3), st.integers(0,3)), max_size=25))
def t18(ops):
    S.clear_true_singleton()
    inits=[]
    class P(metaclass=S.TrueSingleton):
        def __init__(self,*a,**k): self.args=(a,k); inits.append(self)
    class Q(P): pass
    class R(metaclass=S.TrueSingleton):
        def __init__(self,*a,**k): self.args=(a,k); inits.append(self)
    CL=[P,Q,R]; model={}
    for op,ci,a in ops:
        if op==0:
            c=CL[ci%3]; n0=len(inits); o=c(a,z=a)
            if c in model: assert o is model[c] and len(inits)==n0
            else: assert type(o) is c and len(inits)==n0+1 and o.args==((a,),{'z':a}) and all(o is not x for x in model.values()); model[c]=o
        elif op==1:
            if ci==3: S.clear_true_singleton(); model={}
            else: S.clear_true_singleton(CL[ci%3]); model.pop(CL[ci%3],None)
t18(); print('ok C18')
