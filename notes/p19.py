import itertools, sys
from edgegraph.structure import Universe
from edgegraph.structure.universe import UniverseLaws
def run(seq, init):
    L=[UniverseLaws(), UniverseLaws(), None]
    U=[Universe(laws=L[0]) if init&1 else Universe(), Universe(laws=L[1]) if init&2 else Universe(), None]
    allL = [l for l in L if l is not None] + [u.laws for u in U[:2]]
    def inv():
        for u in U[:2]:
            for l in allL:
                if (u.laws is l) != (l.applies_to is u): return False
        return True
    assert inv(), ('init', init)
    for (side,i,j) in seq:
        if side==0:
            U[i].laws = L[j]; assert U[i].laws is L[j]
            if L[j] is not None: assert L[j].applies_to is U[i]
        else:
            L[i].applies_to = U[j]; assert L[i].applies_to is U[j]
            if U[j] is not None: assert U[j].laws is L[i]
        assert inv(), seq
ops=[(0,i,j) for i in range(2) for j in range(3)]+[(1,i,j) for i in range(2) for j in range(3)]
n=0
for k in range(0,int(sys.argv[1])+1):
    for seq in itertools.product(ops, repeat=k):
        for init in range(4):
            try: run(seq, init); n+=1
            except Exception as e:
                print('FAIL', type(e).__name__, e, seq, init); sys.exit(1)
print('ok', n)
