import os, types
from hypothesis import given, settings, seed, strategies as st, HealthCheck
from edgegraph.structure import *
from edgegraph.structure.universe import UniverseLaws
from edgegraph.builder import explicit, adjlist, adjmatrix
from edgegraph.traversal import helpers, breadthfirst as B, depthfirst as D
class SubD(DirectedEdge): pass
CLS=[DirectedEdge, UnDirectedEdge, SubD]
def mutations(c):
    ms=[]
    junk=object()
    ms.append(lambda: c.append(junk)); ms.append(lambda: c.clear()); ms.append(lambda: c.pop()); ms.append(lambda: c.reverse())
    ms.append(lambda: c.__setitem__(0, junk)); ms.append(lambda: c.__delitem__(0)); ms.append(lambda: c.add(junk)); ms.append(lambda: c.update({junk:junk}))
    ms.append(lambda: c.sort(key=id)); ms.append(lambda: c.extend([junk,junk])); ms.append(lambda: c.discard(next(iter(c)))); ms.append(lambda: c.__setitem__(junk, junk))
    return ms
@seed(int(os.environ.get('VERIF_SEED','0')))
@settings(max_examples=int(os.environ.get('N','150')), database=None, deadline=None, suppress_health_check=list(HealthCheck))
@given(st.integers(2,4), st.lists(st.tuples(st.integers(0,2), st.integers(0,3), st.integers(0,3)), min_size=1, max_size=6), st.booleans())
def t(nv, edges, cache):
    Vertex.NEIGHBOR_CACHING=cache
    try:
        wl={Vertex:{Vertex:DirectedEdge}}
        laws=UniverseLaws(edge_whitelist=wl)
        vs=[Vertex(attributes={'i':i}) for i in range(nv)]
        ls=[CLS[c](vs[i%nv], vs[j%nv]) for c,i,j in edges]
        u=Universe(vertices=vs, laws=laws)
        def obs():
            o=[]
            for v in vs:
                o.append(([ls.index(l) for l in v.links],[1 for x in v.universes]))
                for d in (0,1,2): o.append([x.i for x in helpers.neighbors(v,d,1)])
                o.append([x.i for x in B.bft(u,v)]); o.append([x.i for x in D.dft_recursive(u,v)]); o.append([x.i for x in D.dft_iterative(u,v)])
                for w in vs: o.append(sorted(ls.index(l) for l in helpers.find_links(v,w,False)))
            for l in ls: o.append([x.i for x in l.vertices])
            o.append([x.i for x in u.vertices]); o.append({k:dict(v) for k,v in u.laws.edge_whitelist.items()})
            return o
        base=obs()
        getters=[('v.links',lambda: vs[0].links),('l.vertices',lambda: ls[0].vertices),('u.vertices',lambda: u.vertices),('v.universes',lambda: vs[0].universes),
                 ('wl',lambda: laws.edge_whitelist),('wl.inner',lambda: laws.edge_whitelist[Vertex]),
                 ('nb',lambda: helpers.neighbors(vs[0],1,1)),('nb_hit',lambda: (helpers.neighbors(vs[0],1,1),helpers.neighbors(vs[0],1,1))[1]),
                 ('fl',lambda: helpers.find_links(vs[0],vs[1%nv],False)),('bft',lambda: B.bft(u,vs[0])),('dfr',lambda: D.dft_recursive(u,vs[0])),('dfi',lambda: D.dft_iterative(u,vs[0])),
                 ('wl_in', lambda: wl), ('wl_in.inner', lambda: wl[Vertex])]
        for name,g in getters:
            nm=len(mutations(g()))
            for mi in range(nm):
                c=g()
                try: mutations(c)[mi]()
                except (TypeError, AttributeError, IndexError, KeyError, StopIteration): pass
                assert obs()==base,(name,mi,cache)
                # restore caller-side input dicts for next round
                if name.startswith('wl_in'):
                    wl.clear(); wl[Vertex]={Vertex:DirectedEdge}
    finally: Vertex.NEIGHBOR_CACHING=False
t(); print('ok C12')
