import os, random, collections
from hypothesis import given, settings, seed, strategies as st, HealthCheck
from edgegraph.structure import *
from edgegraph.builder import adjlist, adjmatrix, randgraph, explicit
from edgegraph.traversal import helpers
class Odd(TwoEndedLink): pass
class SubD(DirectedEdge): pass
class SubU(UnDirectedEdge): pass
CLS=[DirectedEdge, UnDirectedEdge, SubD, SubU, Odd]
CELLS=[0,1,2,-1,"","x",None,[],[0],0.0,float('nan'),object()]
def snap(vs): return [(list(map(id,v.links)), list(map(id,v.universes))) for v in vs]
@seed(int(os.environ.get('VERIF_SEED','0')))
@settings(max_examples=int(os.environ.get('N','2000')), database=None, deadline=None, suppress_health_check=list(HealthCheck))
@given(st.integers(1,5), st.lists(st.tuples(st.integers(0,4), st.lists(st.integers(0,4),max_size=5)), max_size=5), st.integers(0,4),
       st.lists(st.tuples(st.integers(0,4),st.integers(0,4)),max_size=3), st.integers(0,2))
def tdict(nv, rows, c, prior, itkind):
    vs=[Vertex(attributes={'i':i}) for i in range(nv-1)]+[Universe()]
    pu=Universe(vertices=vs[:1])
    for a,b in prior: explicit.link_directed(vs[a%nv], vs[b%nv])
    before=snap(vs)
    adj={}
    for k,vals in rows: adj[vs[k%nv]]=[vs[x%nv] for x in vals]
    inp={k:( list(v) if itkind==0 else tuple(v) if itkind==1 else iter(list(v))) for k,v in adj.items()}
    u=adjlist.load_adj_dict(inp, CLS[c])
    order=[]
    for k,vals in adj.items():
        for x in [k]+vals:
            if all(x is not y for y in order): order.append(x)
    assert [id(x) for x in u.vertices]==[id(x) for x in order]
    exp_pairs=[(k,x) for k,vals in adj.items() for x in vals]
    new=[]
    for v in vs:
        i=vs.index(v); pre=before[i][0]
        assert list(map(id,v.links))[:len(pre)]==pre
        assert list(map(id,v.universes))[:len(before[i][1])]==before[i][1]
        assert list(map(id,v.universes))[len(before[i][1]):]==([id(u)] if any(v is y for y in order) else [])
        for l in v.links[len(pre):]:
            if all(l is not y for y in new): new.append(l)
    assert len(new)==len(exp_pairs)
    assert all(type(l) is CLS[c] for l in new)
    # creation order: per-vertex suffix order consistent with global pair order -> reconstruct by matching
    got=collections.Counter((id(l.v1),id(l.v2)) for l in new); exp=collections.Counter((id(a),id(b)) for a,b in exp_pairs)
    assert got==exp
    for v in vs:
        suffix=[l for l in v.links[len(before[vs.index(v)][0]):]]
        exps=[(a,b) for a,b in exp_pairs if a is v or b is v]
        assert [(id(l.v1),id(l.v2)) for l in suffix]==[(id(a),id(b)) for a,b in exps]
tdict(); print('ok dict')
@seed(int(os.environ.get('VERIF_SEED','0')))
@settings(max_examples=int(os.environ.get('N','2000')), database=None, deadline=None, suppress_health_check=list(HealthCheck))
@given(st.integers(0,4), st.data(), st.integers(0,4))
def tmat(n, data, c):
    vs=[Vertex(attributes={'i':i}) for i in range(n)]
    bad=data.draw(st.integers(0,3))
    rows=[[data.draw(st.sampled_from(CELLS)) for _ in range(n)] for _ in range(n)]
    side=list(vs)
    if bad==1 and n>0: rows[data.draw(st.integers(0,n-1))].append(1)
    elif bad==2: side=side+[Vertex()]
    elif bad==3 and n>0: rows.append([1]*n)
    before=snap(vs)
    if (bad==1 and n>0) or bad==2 or (bad==3 and n>0):
        try: adjmatrix.load_adj_matrix(rows, side, CLS[c]); assert False,'no raise'
        except ValueError: pass
        assert snap(vs)==before
        return
    u=adjmatrix.load_adj_matrix(rows, side, CLS[c])
    assert [id(x) for x in u.vertices]==[id(x) for x in vs]
    exp=[(i,j) for i in range(n) for j in range(n) if rows[i][j]]
    new=[]
    for v in vs:
        for l in v.links:
            if all(l is not y for y in new): new.append(l)
    assert collections.Counter((l.v1.i,l.v2.i) for l in new)==collections.Counter(exp) and all(type(l) is CLS[c] for l in new)
    for v in vs:
        assert [(l.v1.i,l.v2.i) for l in v.links]==[(i,j) for i,j in exp if i==v.i or j==v.i]
        nb=[x.i for x in helpers.neighbors(v,0,1)]
        if CLS[c] in (UnDirectedEdge,SubU,Odd): expn=[ (j if i==v.i else i) for i,j in exp if i==v.i or j==v.i]
        else: expn=[j for i,j in exp if i==v.i]
        assert nb==expn,(nb,expn)
tmat(); print('ok matrix')
@seed(int(os.environ.get('VERIF_SEED','0')))
@settings(max_examples=int(os.environ.get('N','2000')), database=None, deadline=None, suppress_health_check=list(HealthCheck))
@given(st.integers(1,40), st.integers(0,4), st.one_of(st.none(), st.floats(0,1)), st.booleans(), st.integers())
def t20(count, c, conn, ens, sd):
    def run():
        random.seed(sd); u=randgraph.randgraph(count=count, edge=CLS[c], connectivity=conn, ensurelink=ens); return u
    u=run()
    assert len(u.vertices)==count and sorted(v.i for v in u.vertices)==list(range(count))
    mem=set(map(id,u.vertices))
    for v in u.vertices:
        for l in v.links: assert type(l) is CLS[c] and id(l.v1) in mem and id(l.v2) in mem
        if ens: assert any(l.v1 is v for l in v.links)
    u2=run()
    sig=lambda U: sorted((v.i,[(l.v1.i,l.v2.i) for l in v.links]) for v in U.vertices)
    assert sig(u)==sig(u2)
t20(); print('ok C20')
