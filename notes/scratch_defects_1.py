import sys, pickle, subprocess
from edgegraph.structure import *
from edgegraph.structure import vertex, universe, singleton
from edgegraph.builder import explicit, randgraph, adjlist, adjmatrix
from edgegraph.traversal import helpers, breadthfirst, depthfirst
from edgegraph.output import plaintext, nrpickler, plantuml
def show(name, f):
    try:
        print(name, '=>', f())
    except Exception as e:
        print(name, 'RAISED', type(e).__name__, e)

# C01
a,b,c,d = [Vertex(attributes={'n':n}) for n in 'abcd']
e = DirectedEdge(a,a); e.v2 = b
print('C01 selfloop repoint: e.vertices', [v.n for v in e.vertices], 'a.links has e:', e in a.links)
a,b,c,d = [Vertex(attributes={'n':n}) for n in 'abcd']
e = DirectedEdge(a,a); a.remove_from_link(e)
print('C01 selfloop vertex-side remove: e.vertices', [v.n for v in e.vertices], 'a.links has e:', e in a.links)
a,b,c,d = [Vertex(attributes={'n':n}) for n in 'abcd']
e = UnDirectedEdge(a,b); e.add_vertex(c); e.v1 = d
print('C01 3-end then v1=: e.vertices', [v.n for v in e.vertices], 'c.links has e:', e in c.links)
a,b,c,d = [Vertex(attributes={'n':n}) for n in 'abcd']
e = UnDirectedEdge(a,b); e.unlink_from(a)
show('C01 lost-end v1=', lambda: setattr(e,'v1',c)); print('  ', [v.n for v in e.vertices], [e in x.links for x in (a,b,c)])
show('C01 lost-end v2=', lambda: setattr(e,'v2',c)); print('  ', [v.n for v in e.vertices], [e in x.links for x in (a,b,c)])
# same-vertex reassign order
a,b,c,d = [Vertex(attributes={'n':n}) for n in 'abcd']
e1 = DirectedEdge(a,b); e2 = DirectedEdge(a,c); e1.v1 = a
print('C03 reassign same v1: a.links order e1 first?', a.links[0] is e1)
e1 = DirectedEdge(a,b); e1.v2 = a
print('C03 v2=a on (a,b):', [v.n for v in e1.vertices], e1 in a.links, e1 in b.links)

# C04 filter bypass
class Odd(TwoEndedLink): pass
a,b = Vertex(), Vertex()
o = Odd(a,b)
print('C04 filter bypass', helpers.neighbors(a, unknown_handling=helpers.LNK_UNKNOWN_NEIGHBOR, filterfunc=lambda e,v: False))
print('C09 filter bypass', helpers.find_links(a,b, unknown_handling=helpers.LNK_UNKNOWN_NEIGHBOR, filterfunc=lambda e: False))

# C05
Vertex.NEIGHBOR_CACHING = True
a,b,c = Vertex(attributes={'n':'a'}),Vertex(attributes={'n':'b'}),Vertex(attributes={'n':'c'})
e = DirectedEdge(a,b)
print('C05 before', [v.n for v in helpers.neighbors(a)]); e.v2 = c
print('C05 after v2=c', [v.n for v in helpers.neighbors(a)])
Vertex.NEIGHBOR_CACHING = False
f = DirectedEdge(a,b)
Vertex.NEIGHBOR_CACHING = True
print('C05 toggle stale', [v.n for v in helpers.neighbors(a)], 'truth', [l.v2.n for l in a.links])
# C12 cache aliasing
r = helpers.neighbors(a); r.append('junk'); print('C12 cached list mutated:', helpers.neighbors(a)[-1])
Vertex.NEIGHBOR_CACHING = False

# C08
class Falsy(Vertex):
    def __bool__(self): return False
s = Vertex(attributes={'k':0}); m = Vertex(attributes={'k':1}); t = Falsy(attributes={'k':2})
DirectedEdge(s,m); DirectedEdge(m,t)
print('C08 dfs_recursive falsy', depthfirst.dfs_recursive(None, s, 'k', 2), 'iter', depthfirst.dfs_iterative(None, s,'k',2), 'bfs', breadthfirst.bfs(None,s,'k',2))

# C16
u = Universe(); z = Vertex(universes=[u], attributes={'n':'z'})
print('C16', repr(plaintext.basic_render(u, rfunc=lambda v: v.n)))

# C17
M = singleton.semi_singleton_metaclass()
class A(metaclass=M):
    def __init__(self, *a, **k): pass
class B(metaclass=M):
    def __init__(self, *a, **k): pass
class C(A): pass
print('C17 hash collide', A(-1) is A(-2))
print('C17 shared meta', type(B(-1)).__name__, 'subclass', type(C(-1)).__name__)

# C19
u1 = Universe(); u2 = Universe(); L = UniverseLaws()
u1.laws = None
show('C19 assign after None', lambda: setattr(u1,'laws',L))
u1 = Universe(); u2 = Universe(); L = u1.laws
u2.laws = L
print('C19 move: u1.laws is L', u1.laws is L, 'u2.laws is L', u2.laws is L, 'L.applies_to is u2', L.applies_to is u2)
u1 = Universe(); L = u1.laws; L.applies_to = None
print('C19 detach from law side: u1.laws is L', u1.laws is L, L.applies_to)

# C20
show('C20 count=1', lambda: len(randgraph.randgraph(count=1).vertices))
for n in (2,3,4,5):
    import random
    ok=0
    for sd in range(200):
        random.seed(sd)
        try: randgraph.randgraph(count=n); ok+=1
        except Exception as ex: print(n, sd, ex); break
    print('C20 count', n, ok)
