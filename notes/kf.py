import pickle
from edgegraph.structure import *
from edgegraph.output import nrpickler, plantuml
def t(name, mk, chk):
    res=[]
    for proto in range(0,6):
        try:
            o = mk(); s = nrpickler.dumps(o, protocol=proto); p = pickle.loads(s); res.append(str(chk(p)))
        except BaseException as e: res.append(type(e).__name__)
    print(name, res)
def m1():
    x=Vertex(); v=Vertex(); T=frozenset([v]); x.t=T; v.back=T; return x
t('frozenset-first', m1, lambda p: next(iter(p.t)).back is p.t)
def m2():
    x=Vertex(); v=Vertex(); T=(v,); x.t=T; x.t2=T; return x      # shared but not self-reachable
t('shared tuple, not self-reachable', m2, lambda p: p.t is p.t2)
def m3():
    x=Vertex(); v=Vertex(); T=(v,); x.t=T; v.holder=[T]; return x
t('tuple reachable via list in element', m3, lambda p: p.t[0].holder[0] is p.t)
def m4():
    x=Vertex(); v=Vertex(); DirectedEdge(x,v); T=(v,); x.t=T; v.back=T; return x   # v reached first via links? attr order: t set after links
t('v reachable both ways', m4, lambda p: p.t[0].back is p.t)
def m5():
    v=Vertex(); x=Vertex(attributes={'t':None}); T=(v,); x.t=T; v.back=T; DirectedEdge(x,v); return x
t('tuple attr precedes _links', m5, lambda p: p.t[0].back is p.t)
