from edgegraph.structure import *
from edgegraph.traversal import helpers
class F:
    def __call__(self, e, v): return True
    def __eq__(self, o): return isinstance(o, F)
a=Vertex(); b=Vertex(); DirectedEdge(a,b)
for flag in (False, True):
    Vertex.NEIGHBOR_CACHING=flag
    try: print(flag, len(helpers.neighbors(a, filterfunc=F())))
    except Exception as e: print(flag, type(e).__name__, e)
