#!/bin/bash
f=rc/$1; cp $f $f.bak
python3 - "$f" "$2" "$3" <<'PY'
import sys
p,a,b=sys.argv[1:4]; s=open(p).read(); assert s.count(a)>=1,(p,a); open(p,'w').write(s.replace(a,b,1))
PY
echo -n "suite: "; ( cd rc && timeout 300 /venv/bin/python -m pytest -q -p no:cacheprovider 2>&1 | tail -1 )
echo -n "proto: "; PYTHONPATH=/tmp/scratch/rc N=${N:-3000} MODE=${MODE:-c03} timeout 300 /venv/bin/python $4 2>&1 | grep -v conda | grep "^ok\|AssertionError\|Error:" | head -4 | tr '\n' ' '; echo
mv $f.bak $f
