import os
from hypothesis import given, settings, seed, strategies as st, HealthCheck
from edgegraph.structure import *
from edgegraph.builder import explicit
class Odd(TwoEndedLink): pass
class SubD(DirectedEdge): pass
CLS=[DirectedEdge, UnDirectedEdge, Odd, SubD]
MODE=os.environ.get('MODE','c01')
@seed(int(os.environ.get('VERIF_SEED','0')))
@settings(max_examples=int(os.environ.get('N','5000')), database=None, deadline=None, suppress_health_check=list(HealthCheck))
@given(st.integers(2,4), st.lists(st.tuples(st.integers(0,13), st.integers(0,5), st.integers(0,5), st.integers(0,9)), max_size=30))
def t(nv, ops):
    vs=[Vertex(attributes={'i':i}) for i in range(nv-1)]+[Universe()]
    ls=[]
    # model
    mlinks=[[] for _ in vs]; mends=[]
    def V(j): return None if j==5 else j%nv
    def real(j): return None if j is None else vs[j]
    def attach(x,l):
        if x is not None and l not in mlinks[x]: mlinks[x].append(l)
    def check():
        for v in vs:
            assert len(set(map(id,v.links)))==len(v.links), 'dup'
            for l in ls:
                assert (any(l is x for x in v.links))==(any(v is x for x in l.vertices)), ('asym', v.i if hasattr(v,'i') else 'U', ls.index(l))
        if MODE=='c03':
            for i,v in enumerate(vs): assert [ls.index(l) for l in v.links]==mlinks[i], ('links', i, [ls.index(l) for l in v.links], mlinks[i])
            for k,l in enumerate(ls): assert [None if x is None else vs.index(x) for x in l.vertices]==mends[k], ('ends',k)
    for c,i,j,k in ops:
        raised=None
        try:
            if c<=2:
                a,b=V(i),V(j); l=CLS[k%4](real(a),real(b)); ls.append(l); mends.append([a,b]); attach(a,len(ls)-1); attach(b,len(ls)-1)
            elif c in (3,4) and ls:
                li=i%len(ls); x=V(j); pos=c-3
                if MODE=='c03' and len(mends[li])!=2: continue
                if pos==0: ls[li].v1=real(x)
                else: ls[li].v2=real(x)
                if MODE=='c03':
                    old=mends[li][pos]; mends[li][pos]=x
                    if old is not None and old not in mends[li]: mlinks[old].remove(li)
                    attach(x,li)
            elif c==5:
                a,b=i%nv,j%nv; r=explicit.unlink(vs[a],vs[b],destroy=bool(k%2))
                if MODE=='c03':
                    rem=[q for q in range(len(ls)) if len(mends[q])==2 and set(mends[q])=={a,b} and None not in mends[q]] if a!=b else [q for q in range(len(ls)) if mends[q]==[a,a]]
                    for q in rem:
                        mends[q]=[]
                        for x in {a,b}: mlinks[x].remove(q)
                    if k%2: assert r is None
                    else: assert {ls.index(x) for x in r}==set(rem)
            elif c==6:
                a,b=i%nv,j%nv
                if MODE=='c03':
                    joining=[q for q in mlinks[a] if len(mends[q])==2 and ((mends[q][0]==a and mends[q][1]==b) or (mends[q][1]==a and mends[q][0]==b))]
                n0=len(ls)
                before=set(map(id, [l for v in vs for l in v.links]))
                r=explicit.link_from_to(vs[a], CLS[k%4], vs[b], dontdup=True)
                if any(r is x for x in ls):
                    if MODE=='c03': assert ls.index(r) in joining
                else:
                    if MODE=='c03': assert not joining
                    ls.append(r); mends.append([a,b]); attach(a,len(ls)-1); attach(b,len(ls)-1)
            elif MODE=='c01' and ls:
                li=i%len(ls); x=V(j)
                if c==7: ls[li].unlink_from(real(x))
                elif c==8: ls[li].add_vertex(real(x))
                elif c==9 and x is not None: vs[x].remove_from_link(ls[li])
                elif c==10 and x is not None: vs[x].add_to_link(ls[li])
                elif c==11: nvx=Vertex(links=[ls[li]]); 
        except (IndexError, AttributeError) as e:
            raised=e
            if MODE=='c03': raise
        check()
t(); print('ok', MODE)
