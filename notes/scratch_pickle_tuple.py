import pickle, dill
from edgegraph.structure import *
from edgegraph.output import nrpickler
def t(name, mk, chk):
    for proto in (0,2,4,5):
        try:
            o = mk(); s = nrpickler.dumps(o, protocol=proto); p = pickle.loads(s); print(name, proto, 'ok', chk(p))
        except BaseException as e: print(name, proto, type(e).__name__, str(e)[:80])
def mk1():
    x = Vertex(); v = Vertex(); T = (v,); x.t = T; v.back = T; return x
t('tuple-first rec', mk1, lambda p: (p.t[0].back is p.t))
def mk2():
    x = Vertex(); v = Vertex(); T = (v,1,2,3,4); x.t = T; v.back = T; return x
t('tuple5-first rec', mk2, lambda p: (p.t[0].back is p.t))
def mk3():
    v = Vertex(); T = (v,); v.back = T; return T
t('root tuple rec', mk3, lambda p: (p[0].back is p))
# equivalent with std pickle
x = Vertex(); v = Vertex(); T = (v,); x.t = T; v.back = T
p = pickle.loads(pickle.dumps(x)); print('std pickle', p.t[0].back is p.t)
