import os, gc
from hypothesis import given, settings, seed, strategies as st, HealthCheck
from edgegraph.structure import *
from edgegraph.traversal import helpers, breadthfirst as B, depthfirst as D
class Odd(TwoEndedLink): pass
class SubD(DirectedEdge): pass
class SubU(UnDirectedEdge): pass
class Falsy(Vertex):
    def __bool__(self): return False
CLS=[DirectedEdge, UnDirectedEdge, SubD, SubU, Odd]
KIND={DirectedEdge:'D',SubD:'D',UnDirectedEdge:'U',SubU:'U',Odd:'X'}
def build(nv, edges, reassign):
    vs=[(Falsy if i%4==3 else Vertex)(attributes={'i':i}) for i in range(nv)]
    ls=[CLS[c](vs[i%nv], vs[j%nv]) for c,i,j in edges]
    for (l,end,j) in reassign:
        if ls:
            if end: ls[l%len(ls)].v2=vs[j%nv]
            else: ls[l%len(ls)].v1=vs[j%nv]
    return vs, ls
def abstract(vs, ls):
    vi={id(v):i for i,v in enumerate(vs)}; li={id(l):i for i,l in enumerate(ls)}
    links_of=[[li[id(l)] for l in v.links] for v in vs]
    link=[(KIND[type(l)], vi[id(l.v1)], vi[id(l.v2)]) for l in ls]
    return links_of, link
class NI(Exception): pass
def refnb(G, v, d, u, f):
    links_of, link = G; out=[]
    for l in links_of[v]:
        k,a,b=link[l]; o = b if a==v else a
        if d==1: q=True
        elif k=='U': q=True
        elif k=='D': q=(a==v) if d==0 else (b==v)
        else:
            if u==0: q=False
            elif u==1: q=True
            else: raise NI()
        if q and (f is None or f(l,o)): out.append(o)
    return out
def reach(G, s, mem, d,u,f):
    R={s}; ch=True
    while ch:
        ch=False
        for x in list(R):
            for w in refnb(G,x,d,u,f):
                if (mem is None or w in mem) and w not in R: R.add(w); ch=True
    return R
def rbfs(G,s,mem,d,u,f):
    out=[s]; i=0
    while i<len(out):
        for w in refnb(G,out[i],d,u,f):
            if (mem is None or w in mem) and w not in out: out.append(w)
        i+=1
    return out
def rdfs(G,s,mem,d,u,f):
    out=[]
    def rec(x):
        out.append(x)
        for w in refnb(G,x,d,u,f):
            if (mem is None or w in mem) and w not in out: rec(w)
    rec(s); return out
def rstk(G,s,mem,d,u,f):
    out=[]; st_=[s]
    while st_:
        x=st_.pop()
        if x in out or (mem is not None and x not in mem): continue
        out.append(x); st_.extend(refnb(G,x,d,u,f))
    return out
@seed(int(os.environ.get('VERIF_SEED','0')))
@settings(max_examples=int(os.environ.get('N','3000')), database=None, deadline=None, suppress_health_check=list(HealthCheck))
@given(st.integers(1,7), st.lists(st.tuples(st.integers(0,4), st.integers(0,6), st.integers(0,6)), max_size=12),
       st.lists(st.tuples(st.integers(0,11), st.booleans(), st.integers(0,6)), max_size=3),
       st.one_of(st.none(), st.lists(st.integers(0,6), max_size=7)), st.integers(0,2), st.integers(0,2), st.integers(0,6),
       st.one_of(st.none(), st.integers(0,2**16)), st.one_of(st.none(), st.integers(0,127)), st.integers(0,3), st.integers(0,5))
def t(nv, edges, reassign, memb, d, u, s, fmask, rmask, attrsel, val):
    vs, ls = build(nv, edges, reassign)
    G = abstract(vs, ls)
    vi={id(v):i for i,v in enumerate(vs)}; li={id(l):i for i,l in enumerate(ls)}
    if memb is None: uni=None; mem=None; start=s%nv
    else:
        memb=[m%nv for m in memb]
        if not memb: return
        uni=Universe(vertices=[vs[m] for m in memb]); mem=set(memb); start=memb[s%len(memb)]
    f = None if fmask is None else (lambda l,o: (fmask>>((l*3+o)%16))&1==1)
    ff = None if fmask is None else (lambda e,v: f(li[id(e)], vi[id(v)]))
    rf = None if rmask is None else (lambda v: (rmask>>vi[id(v)])&1==1)
    # neighbors
    for v in range(nv):
        try: exp=refnb(G,v,d,u,f)
        except NI: exp='NI'
        try: got=[vi[id(x)] for x in helpers.neighbors(vs[v],d,u,ff)]
        except NotImplementedError: got='NI'
        assert got==exp,('nb',v,got,exp)
    kw=dict(direction_sensitive=d, unknown_handling=u, ff_via=ff)
    for fn,gen,ref in ((B.bft,B.ibft,rbfs),(D.dft_recursive,D.idft_recursive,rdfs),(D.dft_iterative,D.idft_iterative,rstk)):
        try: exp=ref(G,start,mem,d,u,f); R=reach(G,start,mem,d,u,f)
        except NI: exp='NI'
        try: got=[vi[id(x)] for x in fn(uni,vs[start],**kw)]
        except NotImplementedError: got='NI'
        if exp=='NI' or got=='NI':
            # reference raises iff some reachable vertex has X link... order-dependent; only compare when both agree on raising
            assert (exp=='NI')==(got=='NI'), (fn.__name__, got, exp)
            continue
        assert got==exp,(fn.__name__,got,exp)
        assert set(got)==R and len(set(got))==len(got) and got[0]==start
        assert [vi[id(x)] for x in gen(uni,vs[start],**kw)]==got
        if rf:
            assert [vi[id(x)] for x in fn(uni,vs[start],ff_result=rf,**kw)]==[x for x in got if (rmask>>x)&1]
    # searches (default settings)
    hasX = any(k=='X' for k,_,_ in G[1])
    if not hasX:
        names=['i','k','uid','zz']; an=names[attrsel]
        for v in vs:
            if v.i%2==0: v.k = (v.i//2)%3 + 1000
        sought = {'i':val, 'k':1000+val%4, 'uid':vs[val%nv].uid, 'zz':1}[an]
        for sfn, tfn in ((B.bfs,B.bft),(D.dfs_recursive,D.dft_recursive),(D.dfs_iterative,D.dft_iterative)):
            order=tfn(uni, vs[start])
            exp=next((x for x in order if hasattr(x,an) and getattr(x,an)==sought), None)
            got=sfn(uni, vs[start], an, sought)
            assert got is exp,(sfn.__name__, exp and exp.i, got and got.i)
    # find_links
    for a in range(nv):
        for b in range(nv):
            for ds in (True,False):
                exp=set()
                try:
                    for l in G[0][a]:
                        k,x,y=G[1][l]; o = y if x==a else x
                        if o!=b: continue
                        if not ds: q=True
                        elif k=='U': q=True
                        elif k=='D': q=(x==a)
                        else:
                            if u==0: q=False
                            elif u==1: q=True
                            else: raise NI()
                        if q and (f is None or f(l,0)): exp.add(l)
                except NI: exp='NI'
                try: got={li[id(l)] for l in helpers.find_links(vs[a],vs[b],ds,u,(None if f is None else (lambda e: f(li[id(e)],0))))}
                except NotImplementedError: got='NI'
                assert got==exp,('fl',a,b,ds,got,exp)
t(); print('ok')
