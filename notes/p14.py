import os, re, collections
from hypothesis import given, settings, seed, strategies as st, HealthCheck
from edgegraph.structure import *
from edgegraph.output import plantuml, pyvis, plaintext
from edgegraph.traversal import helpers
class Odd(TwoEndedLink): pass
class SubD(DirectedEdge): pass
class SubU(UnDirectedEdge): pass
class SubV(Vertex): pass
CLS=[DirectedEdge, UnDirectedEdge, SubD, SubU, Odd]
@seed(int(os.environ.get('VERIF_SEED','0')))
@settings(max_examples=int(os.environ.get('N','1500')), database=None, deadline=None, suppress_health_check=list(HealthCheck))
@given(st.integers(1,6), st.lists(st.tuples(st.integers(0,4), st.integers(0,5), st.integers(0,5)), max_size=10), st.lists(st.integers(0,5), max_size=6), st.booleans())
def t(nv, edges, memb, custom):
    vs=[(SubV if i%3==2 else Vertex)(attributes={'i':i}) for i in range(nv)]
    ls=[CLS[c](vs[i%nv], vs[j%nv]) for c,i,j in edges]
    u=Universe(vertices=[vs[k%nv] for k in memb])
    opts={ 'skinparams':{'dpi':'300'},
      Vertex:{'type':'object','show_attrs':['^i$'],'title_format':'v{i}'},
      DirectedEdge:{'v1side':'','v2side':'>'}, UnDirectedEdge:{'v1side':'','v2side':''},
      TwoEndedLink:{'v1side':'x','v2side':'x'}}
    if custom:
        opts[SubD]={'v1side':'<','v2side':'o'}; opts[SubV]={'type':'class','show_attrs':['^i$'],'title_format':'s{i}'}
    src=plantuml.render_to_plantuml_src(u, opts)
    if not u.vertices:
        assert src is None; return
    lines=src.split('\n')
    assert lines[0]=='@startuml' and lines[-2]=='@enduml', lines[-3:]
    def title(v): return ('s%d' if (custom and type(v) is SubV) else 'v%d')%v.i
    decl=[l for l in lines if re.match(r'^(object|class) \S+ <<\w+>> \{$', l)]
    exp=collections.Counter(('class' if (custom and type(v) is SubV) else 'object')+' '+title(v)+' <<'+type(v).__name__+'>> {' for v in u.vertices)
    assert collections.Counter(decl)==exp, (decl, exp)
    rel=[l for l in lines if re.match(r'^\S+ [^\s-]*--[^\s-]* \S+$', l)]
    def arrow(l):
        for c in type(l).__mro__:
            if c in opts: return opts[c]['v1side']+'--'+opts[c]['v2side']
    members=set(map(id,u.vertices))
    internal=collections.Counter(f"{title(l.v1)} {arrow(l)} {title(l.v2)}" for l in ls if id(l.v1) in members and id(l.v2) in members)
    allrel=collections.Counter(f"{title(l.v1)} {arrow(l)} {title(l.v2)}" for l in ls)
    got=collections.Counter(rel)
    mt={title(v) for v in u.vertices}
    got_internal=collections.Counter({k:c for k,c in got.items() if k.split(' ')[0] in mt and k.split(' ')[2] in mt})
    assert got_internal==internal, (got_internal, internal)
    for k,c in got.items(): assert allrel[k]>=c
    # pyvis
    net=pyvis.make_pyvis_net(u, rvfunc=title)
    assert [n['id'] for n in net.nodes]==list(range(len(u.vertices)))
    assert [n['label'] for n in net.nodes]==[title(v) for v in u.vertices]
    pos={id(v):i for i,v in enumerate(u.vertices)}
    dirc=collections.Counter((pos[id(l.v1)],pos[id(l.v2)]) for l in ls if isinstance(l,DirectedEdge) and id(l.v1) in pos and id(l.v2) in pos)
    und=set(frozenset((pos[id(l.v1)],pos[id(l.v2)])) for l in ls if not isinstance(l,DirectedEdge) and id(l.v1) in pos and id(l.v2) in pos)
    gotd=collections.Counter((e['from'],e['to']) for e in net.edges if e.get('arrows')=='to')
    assert gotd==dirc,(gotd,dirc)
    joined=set()
    for e in net.edges:
        joined.add(frozenset((e['from'],e['to'])))
        if e.get('arrows')!='to': assert frozenset((e['from'],e['to'])) in und
    for l in ls:
        if id(l.v1) in pos and id(l.v2) in pos: assert frozenset((pos[id(l.v1)],pos[id(l.v2)])) in joined
    # plaintext
    ok = all(isinstance(l,(DirectedEdge,UnDirectedEdge)) for v in u.vertices for l in v.links)
    if ok:
        txt=plaintext.basic_render(u, rfunc=title)
        exp_lines=[]
        for v in u.vertices:
            nb=[]
            for l in v.links:
                if isinstance(l,UnDirectedEdge): nb.append(l.other(v))
                elif l.v1 is v: nb.append(l.v2)
            exp_lines.append(title(v)+' -> '+', '.join(map(title,nb)))
        assert [x.rstrip() for x in txt.split('\n')]==[x.rstrip() for x in exp_lines], (txt, exp_lines)
t(); print('ok')
