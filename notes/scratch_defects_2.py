import sys, pickle, subprocess, random
from edgegraph.structure import *
from edgegraph.structure.universe import UniverseLaws
from edgegraph.builder import explicit, randgraph, adjlist, adjmatrix
from edgegraph.traversal import helpers, breadthfirst, depthfirst
from edgegraph.output import plaintext, nrpickler, plantuml, pyvis
def show(name, f):
    try:
        print(name, '=>', f())
    except Exception as e:
        print(name, 'RAISED', type(e).__name__, e)
u1 = Universe(); u2 = Universe(); L = UniverseLaws()
u1.laws = None
show('C19 assign after None', lambda: setattr(u1,'laws',L))
u1 = Universe(); u2 = Universe(); L = u1.laws
u2.laws = L
print('C19 move: u1.laws is L', u1.laws is L, 'u2.laws is L', u2.laws is L, 'L.applies_to is u2', L.applies_to is u2)
u1 = Universe(); L = u1.laws; L.applies_to = None
print('C19 detach from law side: u1.laws is L', u1.laws is L, L.applies_to)
u1 = Universe(); u2=Universe(); L = u1.laws; L.applies_to = u2
print('C19 move from law side: u1.laws is L', u1.laws is L, 'u2.laws is L', u2.laws is L)
L = UniverseLaws(edge_whitelist={Vertex:{Vertex:DirectedEdge}}, mixed_links=True, cycles=False, multipath=False, multiverse=True)
print('C19 attrs', L.edge_whitelist, L.mixed_links, L.cycles, L.multipath, L.multiverse)
show('C19 set attr', lambda: setattr(L,'cycles',True))
wl = {Vertex:{Vertex:DirectedEdge}}; L = UniverseLaws(edge_whitelist=wl); wl[Vertex][Universe]=UnDirectedEdge
print('C12 whitelist aliasing', dict(L.edge_whitelist[Vertex]))

show('C20 count=1', lambda: len(randgraph.randgraph(count=1).vertices))
for n in (2,3,4,5):
    ok=0
    for sd in range(300):
        random.seed(sd)
        try: randgraph.randgraph(count=n); ok+=1
        except Exception as ex: print(n, sd, ex); break
    print('C20 count', n, ok)

# C15 selfloop
u = Universe(); a = Vertex(universes=[u]); b = Vertex(universes=[u])
DirectedEdge(a,a); UnDirectedEdge(b,b); DirectedEdge(a,b); DirectedEdge(a,b); UnDirectedEdge(a,b); UnDirectedEdge(b,a); DirectedEdge(b,a)
net = pyvis.make_pyvis_net(u, rvfunc=lambda v: 'x')
print('C15 edges', net.get_edges())
print('C15 nodes', net.nodes)
# C13
def boom(e): raise RuntimeError('x')
show('C13 refunc raises', lambda: pyvis.make_pyvis_net(u, refunc=boom))
print('C13 leaked attrs', [k for k in vars(a) if 'pyvis' in k])
