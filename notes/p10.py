import os, sys, pickle, dill
from hypothesis import given, settings, seed, strategies as st, HealthCheck
from edgegraph.structure import *
from edgegraph.structure.universe import UniverseLaws
from edgegraph.output import nrpickler
from edgegraph.traversal import helpers
class Odd(TwoEndedLink): pass
class SubD(DirectedEdge): pass
class SubV(Vertex): pass
CLS=[DirectedEdge, UnDirectedEdge, Odd, SubD]
PRIV={'_Vertex__qa_nb_cache'}
def canon(root):
    num={}; order=[]
    def n(o):
        if id(o) not in num: num[id(o)]=len(order); order.append(o)
        return num[id(o)]
    def val(x):
        if isinstance(x,BaseObject): return ('ref', n(x))
        if isinstance(x,(list,tuple)): return (type(x).__name__, [val(y) for y in x]) if not isinstance(x,list) else ('list', n(x))
        if isinstance(x,dict): return ('dict', n(x))
        if isinstance(x,(set,frozenset)): return (type(x).__name__, sorted(map(repr,(val(y) for y in x))))
        return ('v', repr(x))
    n(root); i=0; out=[]
    while i<len(order):
        o=order[i]; i+=1
        if isinstance(o,BaseObject):
            d={k:val(v) for k,v in vars(o).items() if k not in PRIV}
            out.append((type(o).__module__+'.'+type(o).__qualname__, sorted(d.items())))
        elif isinstance(o,list): out.append(('list',[val(y) for y in o]))
        elif isinstance(o,dict): out.append(('dict',[(val(k),val(v)) for k,v in o.items()]))
    return out
vals = st.one_of(st.integers(-3,300), st.text(max_size=3), st.none(), st.floats(allow_nan=False), st.binary(max_size=3))
@seed(int(os.environ.get('VERIF_SEED','0')))
@settings(max_examples=int(os.environ.get('N','1500')), database=None, deadline=None, suppress_health_check=list(HealthCheck))
@given(st.integers(1,6), st.lists(st.tuples(st.integers(0,3), st.integers(0,5), st.integers(0,6)), max_size=10),
       st.lists(st.tuples(st.integers(0,5), st.sampled_from('abc'), st.integers(0,6), vals), max_size=8),
       st.lists(st.tuples(st.integers(0,2), st.integers(0,8)), max_size=8), st.integers(0,5), st.booleans(), st.booleans(), st.integers(0,9))
def t(nv, edges, attrs, memb, proto, usedill, cache, rootsel):
    Vertex.NEIGHBOR_CACHING=cache
    try:
        unis=[Universe() for _ in range(3)]
        vs=[(SubV if i%3==2 else Vertex)(attributes={'i':i}) for i in range(nv)]
        pool=vs+unis
        ls=[]
        for c,i,j in edges:
            a=pool[i%len(pool)]; b=None if j==6 else pool[j%len(pool)]
            ls.append(CLS[c](a,b))
        for u,k in memb: unis[u].add_vertex(pool[k%len(pool)])
        shared=[[1,2],{'k':1}]
        for h,name,kind,v in attrs:
            tgt=(pool+ls)[h%len(pool+ls)] if ls else pool[h%len(pool)]
            if kind==0: x=v
            elif kind==1: x=pool[h%len(pool)]
            elif kind==2: x=shared[0]
            elif kind==3: x=shared[1]
            elif kind==4: x=[v, pool[(h+1)%len(pool)]]
            elif kind==5: x={'a':v,'b':pool[(h+2)%len(pool)]}
            else: x=(v,1)
            setattr(tgt,'x_'+name,x)
        if cache:
            for v in vs: 
                try: helpers.neighbors(v, 1)
                except Exception: pass
        roots=[unis[0], vs[0], [unis, vs, ls], ls[0] if ls else vs[0]]
        root=roots[rootsel%4]
        s=nrpickler.dumps(root, protocol=proto)
        p=(dill if usedill else pickle).loads(s)
        assert canon(p)==canon(root)
    finally:
        Vertex.NEIGHBOR_CACHING=False
t(); print('ok')
