import os, random
from hypothesis import given, settings, seed, strategies as st, HealthCheck
from edgegraph.structure import *
from edgegraph.structure.universe import UniverseLaws
from edgegraph.builder import explicit, adjlist, adjmatrix, randgraph
from edgegraph.traversal import helpers, breadthfirst as B, depthfirst as D
from edgegraph.output import plaintext, plantuml, pyvis, nrpickler
class SubD(DirectedEdge): pass
CLS=[DirectedEdge, UnDirectedEdge, SubD]
class Boom(Exception): pass
def deep(objs):
    idx={id(o):i for i,o in enumerate(objs)}
    def val(x):
        if id(x) in idx: return ('ref',idx[id(x)])
        if isinstance(x,(list,tuple)): return [val(y) for y in x]
        if isinstance(x,dict): return sorted((repr(k),val(v)) for k,v in x.items())
        return repr(x)
    return [sorted((k, None if k=='_Vertex__qa_nb_cache' else val(v)) for k,v in vars(o).items()) for o in objs]
@seed(int(os.environ.get('VERIF_SEED','0')))
@settings(max_examples=int(os.environ.get('N','400')), database=None, deadline=None, suppress_health_check=list(HealthCheck))
@given(st.integers(1,5), st.lists(st.tuples(st.integers(0,2), st.integers(0,4), st.integers(0,4)), max_size=8), st.lists(st.integers(0,4),min_size=1,max_size=5), st.booleans())
def t(nv, edges, memb, cache):
    Vertex.NEIGHBOR_CACHING=cache
    try:
        vs=[Vertex(attributes={'i':i}) for i in range(nv)]
        ls=[CLS[c](vs[i%nv], vs[j%nv]) for c,i,j in edges]
        u=Universe(vertices=[vs[m%nv] for m in memb]); start=u.vertices[0]
        objs=vs+ls+[u,u.laws]
        title=lambda v: 'v%d'%v.i
        def mk_opts(urf): 
            o={'skinparams':{}, Vertex:{'type':'object','show_attrs':['^i$'],'title_format':'v{i}'}, DirectedEdge:{'v1side':'','v2side':'>'}, UnDirectedEdge:{'v1side':'','v2side':''}}
            o[Vertex]['user_render_func']=urf; return o
        def pv(net): return (net.nodes, net.edges)
        entries=[
          ('nb', lambda f: [ [x.i for x in helpers.neighbors(v,1,1,f)] for v in vs], 1, lambda e,v: True),
          ('fl', lambda f: [ sorted(ls.index(l) for l in helpers.find_links(a,b,False,1,f)) for a in vs for b in vs], 1, lambda e: True),
          ('bft_via', lambda f: [x.i for x in B.bft(u,start,direction_sensitive=1,ff_via=f)],1, lambda e,v: True),
          ('bft_res', lambda f: [x.i for x in B.bft(u,start,direction_sensitive=1,ff_result=f)],1, lambda v: True),
          ('dfr_via', lambda f: [x.i for x in D.dft_recursive(u,start,direction_sensitive=1,ff_via=f)],1, lambda e,v: True),
          ('dfi_res', lambda f: [x.i for x in D.dft_iterative(u,start,direction_sensitive=1,ff_result=f)],1, lambda v: True),
          ('txt_r', lambda f: plaintext.basic_render(u, rfunc=f),1, title),
          ('txt_s', lambda f: plaintext.basic_render(u, rfunc=title, sort=f),1, lambda v: v.i),
          ('puml', lambda f: plantuml.render_to_plantuml_src(u, mk_opts(f)),1, lambda v,o: 'object %s\n'%title(v)),
          ('pv_rv', lambda f: pv(pyvis.make_pyvis_net(u, rvfunc=f)),1, title),
          ('pv_re', lambda f: pv(pyvis.pyvis_render_customizable(u, rvfunc=title, refunc=f)),1, lambda e: 'e'),
          ('pickle', lambda f: len(nrpickler.dumps(u))>0, 0, None),
          ('bfs', lambda f: B.bfs(u,start,'i',99),0,None), ('dfsr', lambda f: D.dfs_recursive(u,start,'i',99),0,None), ('dfsi', lambda f: D.dfs_iterative(u,start,'i',99),0,None),
        ]
        before=deep(objs)
        for name,call,hascb,good in entries:
            cnt=[0]
            def counting(*a): cnt[0]+=1; return good(*a)
            clean=call(counting if hascb else None)
            assert deep(objs)==before,(name,'clean changed')
            if not hascb: continue
            N=cnt[0]
            for k in range(1,N+1):
                c=[0]
                def faulty(*a):
                    c[0]+=1
                    if c[0]==k: raise Boom()
                    return good(*a)
                try: call(faulty)
                except Boom: pass
                assert deep(objs)==before,(name,'fault',k,N)
                assert call(good)==clean,(name,'repeat',k)
    finally: Vertex.NEIGHBOR_CACHING=False
t(); print('ok C13')
