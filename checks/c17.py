"""
C17 — semi-singletons: per class, instances correspond one-to-one to argument keys.

Case: {"ops": [[op, ci, ai, kw], ...]}
  classes: 0 A, 1 B (A and B share ONE metaclass object), 2 C(A) (subclass), 3 D (own default metaclass),
           4 E (own metaclass with a custom hashfunc: first positional int mod 3)
  op: "new" construct, "add" add_mapping(<ci-th live instance>, args), "drop", "check", "clear"
  ai indexes ARGS; kw: 0 none, 1 {'x':1,'y':2}, 2 same keywords in the other order, 3 {'x':2}
"""
import itertools

from hypothesis import strategies as st

from eglib.driver import Violation, require, sharded

ID = "C17"
LEVEL = "exploration"
DESIGN_REF = "DESIGN.md §3 C17"
RULE = (
    "Histories of construct / add_mapping / drop_semi_singleton_mapping / check_semi_singleton_entry_exists / "
    "get_all_semi_singleton_instances / clear_semi_singleton over a fresh class family per case: A and B sharing "
    "one metaclass object, C(A) a subclass, D with its own default metaclass, E with a custom hashfunc; __init__ "
    "counts its runs.  Argument values from a domain where key equality is unambiguous (ints incl. the "
    "hash-colliding -1/-2, strs, tuples; never mixing 1/1.0/True), keyword-order permutations.  Bounded-exhaustive "
    "for all histories up to the stated length over {A,B,C} x 3 argument values, Hypothesis beyond.  Oracle = a dict "
    "model per class: live key => that instance and __init__ not re-run; new key => new object, type(obj) is the "
    "class called, distinct from every live instance, __init__ ran once; check => the model's instance or None, "
    "creates nothing; get_all(cls) contains every live instance of cls and nothing but live instances of cls or its "
    "subclasses; after every op every class's check/get_all answers are the model's (so other classes are "
    "untouched); at the end every live key still constructs its instance.  Non-trivial = >= 2 classes touched "
    "and (a hash-colliding or keyword-permuted pair, or an add/drop/clear between two constructions); distinct = "
    "distinct case value."
)
ASSUMPTIONS = [
    "dropping an absent key may raise KeyError or do nothing, but changes nothing",
    "get_all_semi_singleton_instances(cls) may include instances of subclasses of cls",
    "argument values never mix ints, floats and bools that compare equal",
]
LEVEL_TEXT = "Model-based exploration with a bounded-exhaustive core (every history of <= 3 / <= 4 operations over 3 classes x 3 argument values) plus Hypothesis histories up to 40 operations over 5 classes."
LEVEL_NOTE = "Trusts the per-class dict model. Search, not proof."
TECHNIQUE = "model-based stateful PBT (exhaustive small-scope + Hypothesis op-lists) against a per-class dict model"

ARGS = [-1, -2, 0, 1, 2, "a", "b", [1, 2], [2, 1]]
OPS = ["new", "new", "new", "add", "drop", "check", "clear"]


def budget(tier):
    if tier == "quick":
        return dict(shards=16, examples=2500, time_s=50)
    return dict(shards=16, examples=60000, time_s=850)


def strategy(tier):
    op = st.tuples(st.sampled_from(OPS), st.integers(0, 4), st.integers(0, len(ARGS) - 1), st.integers(0, 3))
    return st.builds(lambda ops: {"ops": [list(o) for o in ops]}, st.lists(op, max_size=40))


def enumerate_cases(tier, shard=0, nshards=1):
    depth = 3 if tier == "quick" else 4
    alpha = []
    for ci in (0, 1, 2):
        for ai in (0, 1, 3):  # -1, -2 (colliding hashes), 1
            alpha += [("new", ci, ai, 0), ("drop", ci, ai, 0), ("check", ci, ai, 0)]
        alpha.append(("clear", ci, 0, 0))
    for inst in (0, 1):
        for ai in (0, 1, 3):
            alpha.append(("add", inst, ai, 0))

    def gen():
        for k in range(1, depth + 1):
            for seq in sharded(itertools.product(alpha, repeat=k), shard, nshards):
                yield {"ops": [list(o) for o in seq]}

    n = sum(len(alpha) ** k for k in range(1, depth + 1))
    return gen(), f"all {n} histories of 1..{depth} operations from a {len(alpha)}-op alphabet over classes A, B (shared metaclass), C(A) and arguments -1, -2, 1"


def family():
    from edgegraph.structure import singleton as S

    inits = []
    M = S.semi_singleton_metaclass()

    class A(metaclass=M):
        def __init__(self, *a, **k):
            inits.append(self)
            self.args = (a, k)

    class B(metaclass=M):
        def __init__(self, *a, **k):
            inits.append(self)
            self.args = (a, k)

    class C(A):
        pass

    class D(metaclass=S.semi_singleton_metaclass()):
        def __init__(self, *a, **k):
            inits.append(self)

    def hf(args, kwargs):
        return (args[0] % 3) if args and isinstance(args[0], int) else 0

    class E(metaclass=S.semi_singleton_metaclass(hashfunc=hf)):
        def __init__(self, *a, **k):
            inits.append(self)

    return [A, B, C, D, E], inits, hf


def mkargs(ai, kw):
    a = ARGS[ai]
    a = tuple(a) if isinstance(a, list) else a
    kwargs = [{}, {"x": 1, "y": 2}, {"y": 2, "x": 1}, {"x": 2}][kw]
    return a, kwargs


def check_case(case):
    from edgegraph.structure import singleton as S

    CL, inits, hf = family()
    names = ["A", "B", "C", "D", "E"]
    model = {c: {} for c in CL}
    live = []  # all instances ever created, creation order
    classes = set()
    touched = set()
    seen_keys = set()
    special = False
    between = False
    constructed = False
    mutated_since = False

    def key(c, a, kwargs):
        if c is CL[4]:
            return hf((a,), kwargs)
        return (a, tuple(sorted(kwargs.items())))

    def verify_all(where):
        for ci, c in enumerate(CL):
            try:
                got = list(S.get_all_semi_singleton_instances(c))
            except Exception as e:  # noqa
                raise Violation("get_all-raised", f"{where}: {names[ci]}: {e!r}")
            gid = {id(x) for x in got}
            for k, inst in model[c].items():
                if id(inst) not in gid:
                    raise Violation("get_all-misses-live-instance", f"{where}: get_all({names[ci]}) lacks the instance for key {k!r}")
            allowed = {id(x) for cc in CL if issubclass(cc, c) for x in model[cc].values()}
            for x in got:
                if id(x) not in allowed:
                    raise Violation(
                        "get_all-reports-foreign-or-dead-instance",
                        f"{where}: get_all({names[ci]}) yields a {type(x).__name__} instance that is not a live mapping of {names[ci]} or a subclass",
                    )
        n0 = len(inits)
        for ci, c in enumerate(CL):
            for ai in range(len(ARGS)):
                for kw in (0, 1):
                    a, kwargs = mkargs(ai, kw)
                    k = key(c, a, kwargs)
                    try:
                        r = S.check_semi_singleton_entry_exists(c, a, **kwargs)
                    except Exception as e:  # noqa
                        raise Violation("check-raised", f"{where}: {e!r}")
                    exp = model[c].get(k)
                    if r is not exp:
                        raise Violation(
                            "check-disagrees-with-model",
                            f"{where}: check({names[ci]}, {a!r}, {kwargs}) returned {'None' if r is None else type(r).__name__ + ' instance'}, "
                            f"model says {'None' if exp is None else 'the ' + type(exp).__name__ + ' instance for that key'}",
                        )
        require(len(inits) == n0, "check-created-instance", where)

    for step, (op, ci, ai, kw) in enumerate(case["ops"]):
        a, kwargs = mkargs(ai, kw)
        where = f"step {step} {op} {names[ci % 5]} {a!r} {kwargs}"
        if op == "new":
            c = CL[ci % 5]
            k = key(c, a, kwargs)
            touched.add(c)
            n0 = len(inits)
            try:
                o = c(a, **kwargs)
            except Exception as e:  # noqa
                raise Violation("construct-raised", f"{where}: {e!r}")
            if k in model[c]:
                require(o is model[c][k], "live-key-returned-other-instance", f"{where}: expected the live instance for key {k!r}, got {'another ' + type(o).__name__}")
                require(len(inits) == n0, "init-ran-again", where)
            else:
                require(type(o) is c, "wrong-class-returned", f"{where}: returned an instance of {type(o).__name__}")
                require(all(o is not x for x in live), "new-key-returned-old-instance", f"{where}: key {k!r} is new for {names[ci % 5]} but an existing {type(o).__name__} instance was returned")
                require(len(inits) == n0 + 1 and inits[-1] is o, "init-count", f"{where}: __init__ ran {len(inits) - n0} times")
                model[c][k] = o
                live.append(o)
            if constructed and mutated_since:
                between = True
            constructed = True
            mutated_since = False
            sk = (c, repr(a), kw)
            if (c, "-1", kw) in seen_keys and a == -2 or (c, "-2", kw) in seen_keys and a == -1:
                special = True
                classes.add("hash-colliding-pair")
            if kw in (1, 2) and (c, repr(a), 3 - kw) in seen_keys:
                special = True
                classes.add("keyword-order-permuted-pair")
            seen_keys.add(sk)
        elif op == "add":
            if not live:
                continue
            o = live[ci % len(live)]
            c = type(o)
            touched.add(c)
            try:
                S.add_mapping(o, a, **kwargs)
            except Exception as e:  # noqa
                raise Violation("add_mapping-raised", f"{where}: {e!r}")
            model[c][key(c, a, kwargs)] = o
            mutated_since = True
            classes.add("add_mapping")
        elif op == "drop":
            c = CL[ci % 5]
            k = key(c, a, kwargs)
            touched.add(c)
            try:
                S.drop_semi_singleton_mapping(c, a, **kwargs)
            except KeyError:
                require(k not in model[c], "drop-raised-for-live-key", where)
            except Exception as e:  # noqa
                raise Violation("drop-raised", f"{where}: {e!r}")
            else:
                model[c].pop(k, None)
            mutated_since = True
            classes.add("drop")
        elif op == "check":
            pass  # checked for every class and key after every step
        elif op == "clear":
            c = CL[ci % 5]
            touched.add(c)
            try:
                S.clear_semi_singleton(c)
            except Exception as e:  # noqa
                raise Violation("clear-raised", f"{where}: {e!r}")
            model[c] = {}
            mutated_since = True
            classes.add("clear")
        verify_all(f"after {where}")
    # every live key still constructs its instance, without re-initialising
    for ci, c in enumerate(CL):
        for ai in range(len(ARGS)):
            for kw in (0, 1):
                a, kwargs = mkargs(ai, kw)
                k = key(c, a, kwargs)
                if k in model[c]:
                    n0 = len(inits)
                    o = c(a, **kwargs)
                    require(o is model[c][k] and len(inits) == n0, "live-key-returned-other-instance", f"final: {names[ci]}({a!r}, {kwargs})")
    nt = len(touched) >= 2 and (special or between)
    if between:
        classes.add("add/drop/clear-between-constructions")
    return dict(nt=nt, classes=sorted(classes))
