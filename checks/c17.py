"""
C17 — semi-singletons: per class, instances correspond one-to-one to argument keys.

Case: {"ops": [[op, ci, ai, kw], ...]}
  classes: 0 A, 1 B (A and B share ONE metaclass object), 2 C(A) (subclass), 3 D (own default metaclass),
           4 E (own metaclass with a custom hashfunc: first positional int mod 3)
  op: "new" construct, "add" add_mapping(<ci-th live instance>, args), "drop", "check", "clear"
  ai indexes ARGS; kw: 0 none, 1 {'x':1,'y':2}, 2 same keywords in the other order, 3 {'x':2},
      4 {'attrs': {'a':1,'b':2}}, 5 the same nested dict built in the other insertion order
  class 5 F: own default metaclass, instances are falsy (__len__ == 0)
"""
import itertools

from hypothesis import strategies as st

from eglib.driver import Violation, require, sharded

ID = "C17"
LEVEL = "exploration"
DESIGN_REF = "DESIGN.md §3 C17"
RULE = (
    "Histories of construct / add_mapping / drop_semi_singleton_mapping / check_semi_singleton_entry_exists / "
    "get_all_semi_singleton_instances / clear_semi_singleton over a fresh class family per case: A and B sharing "
    "one metaclass object, C(A) a subclass, D with its own default metaclass, E with a custom hashfunc, F whose instances are falsy, G whose __init__ refuses some arguments (a failed construction must register nothing), H with a custom hashfunc for which keyword ORDER matters, V a semi-singleton Vertex subclass whose instances all carry one explicit uid and join one universe; __init__ "
    "counts its runs and stamps a serial number (the harness keeps no reference to instances between calls); an operation 'many' adds 260 further mappings to one class at once; one keyword is called `default`; class W has a dispatching __new__ (W(...) yields an instance of its subclass W2 - 'an instance of the class called').  Argument values from a domain where key equality is unambiguous (ints incl. the "
    "hash-colliding -1/-2, strs, tuples, two UniverseLaws objects made alike - the model identifies library objects up to the library's own ==; never mixing 1/1.0/True), keyword-order permutations incl. equal nested dict values built in different insertion orders.  Bounded-exhaustive "
    "for all histories up to the stated length over {A,B,C} x 3 argument values, Hypothesis beyond.  Oracle = a dict "
    "model per class: live key => that instance and __init__ not re-run; new key => new object, type(obj) is the "
    "class called, distinct from every live instance, __init__ ran once; check => the model's instance or None, "
    "creates nothing; get_all(cls) contains every live instance of cls and nothing but live instances of cls or its "
    "subclasses; after every op every class's check/get_all answers are the model's (so other classes are "
    "untouched); at the end every live key still constructs its instance.  Non-trivial = >= 2 classes touched "
    "and (a hash-colliding or keyword-permuted pair, or an add/drop/clear between two constructions); distinct = "
    "distinct case value."
)
ASSUMPTIONS = [
    "dropping an absent key may raise KeyError or do nothing, but changes nothing",
    "get_all_semi_singleton_instances(cls) may include instances of subclasses of cls",
    "argument values never mix ints, floats and bools that compare equal",
]
LEVEL_TEXT = "Model-based exploration with a bounded-exhaustive core (every history of <= 3 / <= 4 operations over 3 classes x 3 argument values) plus Hypothesis histories up to 40 operations over 5 classes."
LEVEL_NOTE = "Trusts the per-class dict model. Search, not proof."
TECHNIQUE = "model-based stateful PBT (exhaustive small-scope + Hypothesis op-lists) against a per-class dict model"

ARGS = [-1, -2, 0, 1, 2, "a", "b", [1, 2], [2, 1], "<L1>", "<L2>"]   # <L1>/<L2>: two UniverseLaws objects made per case
OPS = ["new", "new", "new", "add", "drop", "check", "clear"] * 3 + ["many"]   # many: 260 distinct new keys of one class at once


def budget(tier):
    if tier == "quick":
        return dict(shards=16, examples=1200, time_s=55)
    return dict(shards=16, examples=60000, time_s=850)


def strategy(tier):
    op = st.tuples(st.sampled_from(OPS), st.integers(0, 9), st.integers(0, len(ARGS) - 1), st.integers(0, 6))
    return st.builds(lambda ops: {"ops": [list(o) for o in ops]}, st.lists(op, max_size=40))


def enumerate_cases(tier, shard=0, nshards=1):
    depth = 3 if tier == "quick" else 4
    alpha = []
    for ci in (0, 1, 2):
        for ai in (0, 1, 3):  # -1, -2 (colliding hashes), 1
            alpha += [("new", ci, ai, 0), ("drop", ci, ai, 0), ("check", ci, ai, 0)]
        alpha.append(("clear", ci, 0, 0))
    for inst in (0, 1):
        for ai in (0, 1, 3):
            alpha.append(("add", inst, ai, 0))

    def gen():
        for k in range(1, depth + 1):
            for seq in sharded(itertools.product(alpha, repeat=k), shard, nshards):
                yield {"ops": [list(o) for o in seq]}

    n = sum(len(alpha) ** k for k in range(1, depth + 1))
    return gen(), f"all {n} histories of 1..{depth} operations from a {len(alpha)}-op alphabet over classes A, B (shared metaclass), C(A) and arguments -1, -2, 1"


class _Abort(BaseException):
    pass


def family():
    from edgegraph.structure import singleton as S

    ninit = [0]
    M = S.semi_singleton_metaclass()

    def init(self, *a, **k):
        ninit[0] += 1
        self.serial = ninit[0]
        self.args = (a, k)

    class A(metaclass=M):
        __init__ = init

    class B(metaclass=M):
        __init__ = init

    class C(A):
        pass

    class D(metaclass=S.semi_singleton_metaclass()):
        __init__ = init

    def hf(args, kwargs):
        return (args[0] % 3) if args and isinstance(args[0], int) else 0

    class E(metaclass=S.semi_singleton_metaclass(hashfunc=hf)):
        __init__ = init

    class F(metaclass=S.semi_singleton_metaclass()):
        """Instances are falsy (an empty-container style class)."""

        __init__ = init

        def __len__(self):
            return 0

    class G(metaclass=S.semi_singleton_metaclass()):
        """__init__ refuses some arguments: a failed construction must leave nothing behind."""

        def __init__(self, *a, **k):
            if a and a[0] in ("b", 2):
                raise ValueError("refused")
            if a and a[0] == -2:
                raise _Abort()          # not an Exception subclass (like KeyboardInterrupt), survived by the caller
            init(self, *a, **k)

    class H(metaclass=S.semi_singleton_metaclass(hashfunc=lambda a, k: (a, tuple(k)))):
        """A custom hashfunc for which the ORDER of the keyword arguments matters."""

        __init__ = init

    from edgegraph.structure import Universe, Vertex
    from edgegraph.structure.universe import UniverseLaws

    home = Universe()

    import json

    def vhf(args, kwargs):
        return (args, json.dumps({x: v for x, v in kwargs.items() if x not in ("uid", "universes")}, sort_keys=True))

    class V(Vertex, metaclass=S.semi_singleton_metaclass(hashfunc=vhf)):
        """A semi-singleton VERTEX class (named stations, keyed on everything but uid/universes): the harness gives
        every instance the same explicit uid and the same home universe (V.EXTRA)."""

        EXTRA = {"uid": 77, "universes": [home]}

        def __init__(self, name, *, uid=None, universes=None, **k):
            Vertex.__init__(self, uid=uid, universes=universes, attributes={"name": repr(name)})
            init(self, name, **k)

    class W(metaclass=S.semi_singleton_metaclass()):
        """A class with a dispatching __new__ (the pathlib.Path idiom): W(...) yields an instance of the implementation
        subclass W2 - still an instance of the class that was called."""

        def __new__(cls, *a, **k):
            return object.__new__(W2 if cls is W else cls)

        __init__ = init

    class W2(W):
        pass

    W.POLYMORPHIC = True

    # library objects as argument values: two law sets made alike (whether they are EQUAL is the library's call;
    # the model follows whatever == says)
    libobjs = {"<L1>": UniverseLaws(), "<L2>": UniverseLaws()}
    return [A, B, C, D, E, F, G, H, V, W], ninit, hf, libobjs


KWARGS = [{}, {"x": 1, "y": 2}, {"y": 2, "x": 1}, {"x": 2}, {"attrs": {"a": 1, "b": 2}}, {"attrs": {"b": 2, "a": 1}},
          {"default": "red"}]     # a constructor keyword with an everyday name (the helper functions pass keywords through)


def mkargs(ai, kw, libobjs=None):
    a = ARGS[ai]
    a = tuple(a) if isinstance(a, list) else a
    if libobjs and isinstance(a, str) and a in libobjs:
        a = libobjs[a]
    return a, {k: (dict(v) if isinstance(v, dict) else v) for k, v in KWARGS[kw % len(KWARGS)].items()}


def _canon(v):
    if isinstance(v, dict):
        return tuple(sorted((k, _canon(x)) for k, x in v.items()))
    return v


def check_case(case):
    """
    The harness keeps no strong reference to instances between calls: identity is tracked through a serial
    number set by __init__, the model maps (class, key) -> serial.
    """
    from edgegraph.structure import singleton as S

    CL, ninit, hf, libobjs = family()
    NC = len(CL)
    names = ["A", "B", "C", "D", "E", "F", "G", "H", "V", "W"]

    def type_ok(typ, c):
        """'an instance of the class that was called': exactly that class - or, for the class with the dispatching
        __new__, the implementation subclass it chose"""
        return typ is c or (getattr(c, "POLYMORPHIC", False) and issubclass(typ, c))

    lib = list(libobjs.values())

    def tok(a):
        """Model-side stand-in for an argument value: library objects are identified up to the library's own ==."""
        for j, o in enumerate(lib):
            if o is a or (type(o) is type(a) and o == a):
                return ("libobj", j)
        return a

    model = {c: {} for c in CL}   # key -> (serial, constructor args that reach it)
    classes = set()
    touched = set()
    seen_keys = set()
    special = False
    between = False
    constructed = False
    mutated_since = False

    # keys probed with check() after every step: everything this history mentions, plus the colliding pair
    probe_args = sorted({o[2] for o in case["ops"]} | {0, 1})
    probe_kws = sorted({o[3] % len(KWARGS) for o in case["ops"]} | {0})

    def kx(c, kwargs):
        """keyword arguments as passed to the library: V additionally gets its fixed uid / universes"""
        return dict(kwargs, **c.EXTRA) if hasattr(c, "EXTRA") else kwargs

    def key(c, a, kwargs):
        if c is CL[4]:
            return hf((a,), kwargs)
        if c is CL[7]:
            return ((tok(a),), tuple(kwargs))     # H keys on the positional args and the keyword NAMES in call order
        return (tok(a), _canon(kwargs))

    def verify_all(where):
        for ci, c in enumerate(CL):
            try:
                got = [(getattr(x, "serial", None), type(x)) for x in S.get_all_semi_singleton_instances(c)]
            except Exception as e:  # noqa
                raise Violation("get_all-raised", f"{where}: {names[ci]}: {e!r}")
            gser = {g[0] for g in got}
            for k, (serial, _) in model[c].items():
                if serial not in gser:
                    raise Violation("get_all-misses-live-instance", f"{where}: get_all({names[ci]}) lacks the instance for key {k!r}")
            allowed = {ser for cc in CL if issubclass(cc, c) for ser, _ in model[cc].values()}
            for ser, typ in got:
                if ser not in allowed:
                    raise Violation(
                        "get_all-reports-foreign-or-dead-instance",
                        f"{where}: get_all({names[ci]}) yields a {typ.__name__} instance (serial {ser}) that is not a live mapping of {names[ci]} or a subclass",
                    )
        n0 = ninit[0]
        for ci, c in enumerate(CL):
            for ai in probe_args:
                for kw in probe_kws:
                    a, kwargs = mkargs(ai, kw, libobjs)
                    k = key(c, a, kwargs)
                    try:
                        r = S.check_semi_singleton_entry_exists(c, a, **kx(c, kwargs))
                    except Exception as e:  # noqa
                        raise Violation("check-raised", f"{where}: {e!r}")
                    exp = model[c].get(k)
                    got = None if r is None else (getattr(r, "serial", None), type(r))
                    del r
                    if (got is None) != (exp is None) or (got is not None and (got[0] != exp[0] or not type_ok(got[1], c))):
                        raise Violation(
                            "check-disagrees-with-model",
                            f"{where}: check({names[ci]}, {a!r}, {kwargs}) returned {'None' if got is None else got[1].__name__ + ' serial ' + str(got[0])}, "
                            f"model says {'None' if exp is None else names[ci] + ' serial ' + str(exp[0])}",
                        )
        require(ninit[0] == n0, "check-created-instance", where)

    for step, (op, ci, ai, kw) in enumerate(case["ops"]):
        a, kwargs = mkargs(ai, kw, libobjs)
        where = f"step {step} {op} {names[ci % NC]} {a!r} {kwargs}"
        if op == "new":
            c = CL[ci % NC]
            k = key(c, a, kwargs)
            touched.add(c)
            n0 = ninit[0]
            refused = c is CL[6] and a in ("b", 2, -2) and k not in model[c]
            try:
                o = c(a, **kx(c, kwargs))
            except (ValueError, _Abort) as e:
                if refused:
                    # the class's own __init__ refused: nothing may have been registered (verify_all checks it)
                    classes.add("construction-refused-by-__init__")
                    verify_all(f"after {where} (refused)")
                    continue
                raise Violation("construct-raised", f"{where}: {e!r}")
            except Exception as e:  # noqa
                raise Violation("construct-raised", f"{where}: {e!r}")
            if refused:
                raise Violation("refused-construction-returned-object", f"{where}: __init__ raises for this argument, yet an object came back")
            ser, typ, truth = getattr(o, "serial", None), type(o), bool(o)
            del o
            if k in model[c]:
                require(ser == model[c][k][0] and type_ok(typ, c), "live-key-returned-other-instance", f"{where}: expected the live instance (serial {model[c][k][0]}) for key {k!r}, got {typ.__name__} serial {ser}")
                require(ninit[0] == n0, "init-ran-again", where)
            else:
                require(type_ok(typ, c), "wrong-class-returned", f"{where}: returned an instance of {typ.__name__}")
                require(ninit[0] == n0 + 1 and ser == ninit[0], "new-key-returned-old-instance", f"{where}: key {k!r} is new for {names[ci % NC]} but __init__ ran {ninit[0] - n0} times and serial {ser} came back")
                model[c][k] = (ser, (a, kwargs))
                if not truth:
                    classes.add("falsy-instance")
            if constructed and mutated_since:
                between = True
            constructed = True
            mutated_since = False
            if tok(a) != a:
                classes.add("library-object-as-argument")
            sk = (c, repr(a), kw)
            if ((c, "-1", kw) in seen_keys and a == -2) or ((c, "-2", kw) in seen_keys and a == -1):
                special = True
                classes.add("hash-colliding-pair")
            if kw in (1, 2) and (c, repr(a), 3 - kw) in seen_keys:
                special = True
                classes.add("keyword-order-permuted-pair")
            if kw in (4, 5) and (c, repr(a), 9 - kw) in seen_keys:
                special = True
                classes.add("nested-dict-order-permuted-pair")
            seen_keys.add(sk)
        elif op == "many":
            # 260 further mappings of one class in one go (integer arguments 1000 + 3n: distinct keys also under E's hashfunc? no -
            # E keys on the argument mod 3, so E gets at most one new mapping; every other class gets 260)
            c = CL[ci % NC]
            touched.add(c)
            for n in range(260):
                aa = 1000 + n
                k = key(c, aa, {})
                n0 = ninit[0]
                try:
                    o = c(aa, **kx(c, {}))
                except Exception as e:  # noqa
                    raise Violation("construct-raised", f"{where}: argument {aa}: {e!r}")
                ser, typ = getattr(o, "serial", None), type(o)
                del o
                if k in model[c]:
                    require(ser == model[c][k][0] and ninit[0] == n0, "live-key-returned-other-instance", f"{where}: argument {aa}")
                else:
                    require(type_ok(typ, c) and ninit[0] == n0 + 1 and ser == ninit[0], "new-key-returned-old-instance", f"{where}: argument {aa}: __init__ ran {ninit[0] - n0} times, serial {ser}")
                    model[c][k] = (ser, (aa, {}))
            classes.add("260-mappings-at-once")
            mutated_since = True
        elif op == "add":
            # (not for the class with the dispatching __new__: add_mapping files the alias under type(obj), and which
            #  class's table that should be for such an instance is not something the statement or the docs define)
            entries = [(c, k) for c in CL for k in model[c] if not getattr(c, "POLYMORPHIC", False)]
            if not entries:
                continue
            c, k0 = entries[ci % len(entries)]
            touched.add(c)
            a0, kw0 = model[c][k0][1]
            o = c(a0, **kx(c, kw0))                      # the live instance for (c, k0)
            ser = getattr(o, "serial", None)
            require(ser == model[c][k0][0], "live-key-returned-other-instance", f"{where}: fetching the live instance for key {k0!r}")
            try:
                S.add_mapping(o, a, **kx(c, kwargs))
            except Exception as e:  # noqa
                raise Violation("add_mapping-raised", f"{where}: {e!r}")
            del o
            model[c][key(c, a, kwargs)] = (ser, (a, kwargs))
            mutated_since = True
            classes.add("add_mapping")
        elif op == "drop":
            c = CL[ci % NC]
            k = key(c, a, kwargs)
            touched.add(c)
            try:
                S.drop_semi_singleton_mapping(c, a, **kx(c, kwargs))
            except KeyError:
                require(k not in model[c], "drop-raised-for-live-key", where)
            except Exception as e:  # noqa
                raise Violation("drop-raised", f"{where}: {e!r}")
            else:
                model[c].pop(k, None)
            mutated_since = True
            classes.add("drop")
        elif op == "check":
            pass  # checked for every class and key after every step
        elif op == "clear":
            c = CL[ci % NC]
            touched.add(c)
            try:
                S.clear_semi_singleton(c)
            except Exception as e:  # noqa
                raise Violation("clear-raised", f"{where}: {e!r}")
            model[c] = {}
            mutated_since = True
            classes.add("clear")
        verify_all(f"after {where}")
    # every live key still constructs its instance, without re-initialising
    for ci, c in enumerate(CL):
        for k, (serial, (a, kwargs)) in list(model[c].items()):
            n0 = ninit[0]
            o = c(a, **kx(c, kwargs))
            ok = getattr(o, "serial", None) == serial and ninit[0] == n0
            del o
            require(ok, "live-key-returned-other-instance", f"final: {names[ci]}({a!r}, {kwargs})")
    nt = len(touched) >= 2 and (special or between)
    if between:
        classes.add("add/drop/clear-between-constructions")
    return dict(nt=nt, classes=sorted(classes))
