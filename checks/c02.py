"""
C02 — universe membership is symmetric, ordered and duplicate-free after every history.

Case: {"nv": n, "nuni": k, "ops": [[name, i, j, k], ...]} with universe ops only.
"""
import copy
import itertools

from hypothesis import strategies as st

from eglib import h
from eglib.driver import Violation, require, sharded
from eglib.model import Model, ModelRaises
from eglib.world import World

ID = "C02"
LEVEL = "exploration"
DESIGN_REF = "DESIGN.md §3 C02"
RULE = (
    "Histories of Universe.add_vertex/remove_vertex, Vertex.add_to_universe/remove_from_universe, "
    "Vertex(universes=[.. with repeats]) and Universe(vertices=[.. with repeats]) (lists, tuples, one-shot iterators), two universes built from one and the same list object, bulk addition of 7-40 fresh members at once, universes constructed from 129-300 fresh vertices in ONE call, and churn (the first member of a universe leaves and joins again 5-70 times in a row, from alternating sides) - membership-index size thresholds and deferred clean-ups - over 1-3 universes and 1-3 plain "
    "vertices (optionally of classes that are falsy, multiply inheriting, hashing by uid or slotted) where universes are themselves candidates for membership (nesting, self-membership).  "
    "Bounded-exhaustive for every history up to the stated length over 2 universes + 2 vertices (all four calls, "
    "every universe x every member candidate incl. the universes themselves), Hypothesis beyond.  After every "
    "call: v in U.vertices <=> U in v.universes for all pairs, neither list has a repeat, U.vertices equals the "
    "model's insertion-ordered list, v.universes holds exactly the model's universes (order not pinned); removal of a non-member raised and left "
    "the snapshot identical.  Non-trivial = contains a removal, a re-add after removal, and either both a "
    "vertex-side and a universe-side call on one pair or a nested/self membership; distinct = distinct case value."
)
ASSUMPTIONS = [
    "removing a non-member may raise any exception type (the docs name ValueError and KeyError in different places)",
    "a universe that was given restrictive (non-default) laws may refuse a member by raising, provided nothing changed; under default laws every add must succeed",
    "the order of BaseObject.universes is NOT checked here (the statement pins only the order of Universe.vertices); it is part of C03's observable graph",
]
LEVEL_TEXT = (
    "Exploration with a bounded-exhaustive core: every history of <= 3 (quick) / <= 4 (thorough) membership calls "
    "over 2 universes x 4 member candidates from both sides (32-op alphabet), plus Hypothesis histories up to "
    "40/100 calls over growing pools incl. the two constructors; symmetric-membership invariant and model "
    "equality after every call."
)
LEVEL_NOTE = "Trusts the dict/list membership model and the snapshot reader (public accessors only). Search, not proof."
TECHNIQUE = "model-based stateful PBT: exhaustive small-scope histories + Hypothesis op-lists vs. an insertion-ordered membership model"

OPS_W = ["ua"] * 3 + ["va"] * 3 + ["ur"] * 2 + ["vr"] * 2 + ["newv_u", "newu", "newu2", "newv_u2", "lawsnone"] + ["bulk_u"] + ["newu_big", "churn"]


def budget(tier):
    if tier == "quick":
        return dict(shards=16, examples=2500, time_s=50)
    return dict(shards=16, examples=60000, time_s=850)


def strategy(tier):
    maxlen = 40 if tier == "quick" else 100
    op = st.tuples(st.sampled_from(OPS_W), st.integers(0, 11), st.integers(0, 11), st.integers(0, 11))
    return st.builds(
        lambda nplain, nuni, ops, vcls: {"nv": nplain + nuni, "nuni": nuni, "dupuid": bool(ops and ops[0][3] % 4 == 0), "ops": [list(o) for o in ops], **({"vcls": vcls} if vcls else {})},
        st.integers(1, 3),
        st.integers(1, 3),
        st.lists(op, max_size=maxlen),
        # vertex classes of the plain vertices (falsy through __bool__ / __len__, multiply inheriting, hashing by uid, slotted)
        st.one_of(st.none(), st.lists(st.integers(0, 5), min_size=1, max_size=3)),
    )


def enumerate_cases(tier, shard=0, nshards=1):
    depth = 3 if tier == "quick" else 4
    # nv = 4: vertices 0,1 plain; 2,3 universes
    alpha = [(nm, u, v, 0) for nm in ("ua", "ur", "va", "vr") for u in (0, 1) for v in (0, 1, 2, 3)]

    def gen():
        for k in range(1, depth + 1):
            for seq in sharded(itertools.product(alpha, repeat=k), shard, nshards):
                yield {"nv": 4, "nuni": 2, "ops": [list(o) for o in seq]}

    n = sum(len(alpha) ** k for k in range(1, depth + 1))
    return gen(), (
        f"all {n} histories of 1..{depth} membership calls (add/remove from the universe side and from the vertex "
        f"side) over 2 universes x 4 member candidates (2 plain vertices and the 2 universes themselves)"
    )


def _invariant(w, where):
    vi, _ = w.index_maps()
    for u in w.uidx:
        U = w.vs[u]
        mem = U.vertices
        ids = [id(x) for x in mem]
        h.spoil(mem)        # the list is the caller's: scribbling on it must not show anywhere
        require(len(set(ids)) == len(ids), "duplicate-member", lambda: f"{where}: universe {u} lists a member twice: {[vi.get(i, '?') for i in ids]}")
        for k, v in enumerate(w.vs + w.bulk_members):
            a = id(v) in ids
            b = any(x is U for x in v.universes)
            if a != b:
                raise Violation("membership-asymmetric", f"{where}: vertex {k} in universe {u}.vertices = {a}, universe in vertex.universes = {b}")
    for k, v in enumerate(w.vs):
        ids = [id(x) for x in v.universes]
        require(len(set(ids)) == len(ids), "duplicate-universe", lambda: f"{where}: vertex {k} lists a universe twice")


def check_case(case):
    w = World(case["nv"], case["nuni"], case.get("vcls"), bool(case.get("dupuid")))
    m = Model(len(w.vs), w.uidx)
    classes = set()
    if any(not bool(v) for v in w.vs):
        classes.add("falsy-vertex-in-pool")
    removed_pairs = set()
    sides = {}
    has_remove = readd = nested = False
    for step, op in enumerate(case["ops"]):
        r = w.resolve(op)
        if r is None:
            continue
        name = r[0]
        where = f"step {step} {list(r)}"
        if name in ("ua", "va", "ur", "vr"):
            pair = (r[1], r[2])
            sides.setdefault(pair, set()).add(name[0])
            if r[2] in w.uidx:
                nested = True
                classes.add("self-membership" if r[1] == r[2] else "nested-universe")
            if name in ("ua", "va") and pair in removed_pairs and r[2] not in m.members[r[1]]:
                readd = True
                classes.add("re-add-after-remove")
        before = w.snapshot()
        m_before = copy.deepcopy(m) if (name in ("ua", "va") and r[1] in w.restrictive) else None
        try:
            exp = m.apply(r)
        except ModelRaises:
            classes.add("remove-non-member")
            try:
                w.execute(r)
            except Exception:  # noqa - any exception type is acceptable here
                pass
            else:
                raise Violation("no-raise", f"{where}: removing a non-member returned normally")
            require(w.snapshot() == before, "raise-changed-state", f"{where}: snapshot changed although the removal raised")
            _invariant(w, where)
            continue
        if name in ("ur", "vr"):
            has_remove = True
            removed_pairs.add((r[1], r[2]))
        if name == "bulk_u":
            classes.add("bulk-members(>=7)")
        if name == "newv_u" and len(set(r[1])) < len(r[1]):
            classes.add("constructor-list-with-repeats")
        if name == "newu" and len(set(r[1])) < len(r[1]):
            classes.add("constructor-list-with-repeats")
        try:
            ret = w.execute(r)
        except Exception as e:  # noqa
            if name in ("ua", "va") and r[1] in w.restrictive:
                # a universe under restrictive (non-default) laws MAY refuse a member - but then nothing changed
                require(w.snapshot() == before, "raise-changed-state", f"{where}: {e!r} was raised, yet the snapshot changed")
                _invariant(w, where)
                m = m_before
                classes.add("refused-under-restrictive-laws")
                continue
            raise Violation("call-raised", f"{where}: {e!r}")
        _invariant(w, where)
        real, expd = w.snapshot(), m.snapshot()
        if real["members"] != expd["members"]:
            raise Violation("member-order", f"{where}: real members={real['members']} model={expd['members']}")
        # BaseObject.universes: the statement pins membership and absence of duplicates, not the order
        if [sorted(map(str, x)) for x in real["unis_of"]] != [sorted(map(str, x)) for x in expd["unis_of"]]:
            raise Violation("universes-membership", f"{where}: real universes={real['unis_of']} model={expd['unis_of']}")
    both_sides = any(len(s) == 2 for s in sides.values())
    nt = has_remove and readd and (both_sides or nested)
    if both_sides:
        classes.add("both-sides-on-one-pair")
    return dict(nt=nt, classes=sorted(classes))
