"""
C20 — randgraph always returns a universe of exactly `count` well-formed vertices.

Case: {"count": n, "cls": 0..5, "conn": None | float, "ens": bool, "seed": int}
"""
import itertools
import random

from hypothesis import strategies as st

from eglib.driver import Violation, require, sharded

ID = "C20"
LEVEL = "exploration"
DESIGN_REF = "DESIGN.md §3 C20"
RULE = (
    "Exhaustive grid: count 1..12 x 6 two-ended link classes x connectivity in {default, 0, 0.1, 0.5, 1} x "
    "ensurelink in {True, False} x 40 (quick) / 400 (thorough) seeds of the random module; plus a grid of larger counts (63-300, around multiples of 64 and 128); plus Hypothesis: count "
    "<= 80, 9 link classes (also one with renamed end parameters, one whose constructor takes the two ends only, one derived from both edge classes), connectivity any float in [0, 1], arbitrary int seed.  Oracle: the call returns (no exception); "
    "len(uni.vertices) == count; sorted(v.i) == range(count); every link of every member has exactly the requested "
    "type and both ends inside the universe; with ensurelink every member is v1 of >= 1 link; a second call with the same seed - made after the caller removed a member from the first result - returns a NEW graph (no object shared with the first) of the same shape; re-seeding the random "
    "module with the same value gives the same graph - in this process, and as the very first call of two separate fresh interpreters - (same (v1.i, v2.i) list per vertex in the same order).  "
    "Non-trivial = count >= 2 and >= 1 link; counts 1..5 with the default connectivity (where 5/count > 1) are "
    "always part of the grid and tallied; distinct = distinct case value."
)
ASSUMPTIONS = ["the random generator is the module-level `random`, driven through random.seed(<generated int>)", "connectivity 0 is admitted (the docstring says 0 < c <= 1; with 0 and ensurelink=False the graph simply has no link)"]
LEVEL_TEXT = "Exhaustive over a finite grid of (count, class, connectivity, ensurelink, seed) covering all small counts, plus Hypothesis over larger counts and arbitrary connectivity/seed."
LEVEL_NOTE = "Trusts reading the result through Universe.vertices / Vertex.links. Search over RNG states is by sampling seeds."
TECHNIQUE = "exhaustive parameter grid x sampled RNG seeds + Hypothesis; validity-predicate oracle and seed-reproducibility metamorphic check"

CONN = [None, 0.0, 0.1, 0.5, 1.0]
CLSMAP = [0, 1, 2, 3, 4, 5, 11, 12, 9]   # + RoadLink (renamed end parameters), BareEdge (two-argument constructor), BothEdge


def budget(tier):
    if tier == "quick":
        return dict(shards=16, examples=400, time_s=50)
    return dict(shards=16, examples=10000, time_s=850)


def strategy(tier):
    return st.builds(
        lambda count, cls, conn, ens, seed: {"count": count, "cls": cls, "conn": conn, "ens": ens, "seed": seed},
        st.integers(1, 80), st.integers(0, 8), st.one_of(st.none(), st.floats(0, 1, allow_nan=False)), st.booleans(), st.integers(),
    )


BIG_COUNTS = [15, 63, 64, 65, 100, 127, 128, 129, 140, 192, 256, 257, 300]


def enumerate_cases(tier, shard=0, nshards=1):
    nseeds = 40 if tier == "quick" else 400
    nbig = 2 if tier == "quick" else 12
    grid = itertools.chain(
        # larger counts around the sizes where block-wise / bounded-cache implementations change behaviour
        itertools.product(BIG_COUNTS, (0, 1), (None, 0.1), (True, False), range(nbig)),
        itertools.product(range(1, 13), range(6), CONN, (True, False), range(nseeds)),
    )

    def gen():
        for count, cls, conn, ens, seed in sharded(grid, shard, nshards):
            yield {"count": count, "cls": cls, "conn": conn, "ens": ens, "seed": seed}

    return gen(), (f"all {12 * 6 * 5 * 2 * nseeds} combinations: count 1..12 x 6 link classes x connectivity {{default,0,0.1,0.5,1}} x ensurelink x {nseeds} seeds; "
                   f"plus {len(BIG_COUNTS) * 2 * 2 * 2 * nbig} combinations with count in {BIG_COUNTS} x 2 link classes x connectivity {{default,0.1}} x ensurelink x {nbig} seeds")


def check_case(case):
    from edgegraph.builder import randgraph
    from edgegraph.structure import Universe
    from eglib import classes as C

    E = C.LINK_CLASSES[CLSMAP[case["cls"]]]
    count = case["count"]
    state = random.getstate()
    try:
        def run():
            random.seed(case["seed"])
            kw = dict(count=count, edge=E, ensurelink=case["ens"])
            if case["conn"] is not None:
                kw["connectivity"] = case["conn"]
            if case["seed"] % 2:
                # arguments whose value is the documented default (count=15, edge=DirectedEdge, ensurelink=True) are OMITTED
                from edgegraph.structure import DirectedEdge

                kw = {k: v for k, v in kw.items() if not ((k == "count" and v == 15) or (k == "edge" and v is DirectedEdge) or (k == "ensurelink" and v is True))}
            try:
                return randgraph.randgraph(**kw)
            except Exception as e:  # noqa
                raise Violation(f"randgraph-raised:{type(e).__name__}", f"randgraph({kw}) after random.seed({case['seed']}): {e!r}")

        u = run()
        require(isinstance(u, Universe), "not-a-universe", type(u).__name__)
        vs = u.vertices
        require(len(vs) == count, "vertex-count", f"{len(vs)} vertices for count={count}")
        ivals = sorted(getattr(v, "i", None) for v in vs) if all(hasattr(v, "i") for v in vs) else None
        require(ivals == list(range(count)), "vertex-indices", f"i values {ivals}")
        mem = {id(v) for v in vs}
        nlinks = 0
        for v in vs:
            for l in v.links:
                nlinks += 1
                require(type(l) is E, "link-type", f"{type(l).__name__} instead of {E.__name__}")
                require(len(l.vertices) == 2 and id(l.v1) in mem and id(l.v2) in mem, "link-leaves-universe", f"vertex {v.i}")
            if case["ens"]:
                require(any(l.v1 is v for l in v.links), "ensurelink-violated", f"vertex {v.i} is v1 of no link (count={count}, conn={case['conn']})")
        # order-sensitive: the universe's member order is part of "the result"
        sig = lambda U: [(v.i, [(l.v1.i, l.v2.i) for l in v.links]) for v in U.vertices]
        # the caller does what it likes with the first result (here: one member leaves) before asking again
        s1 = sig(u)
        if vs:
            u.remove_vertex(vs[0])
        u2 = run()
        require(s1 == sig(u2), "not-reproducible", "same seed, different graph (the first result had been modified by the caller in between)")
        require(u2 is not u and not ({id(x) for x in u2.vertices} & {id(x) for x in vs}), "returned-object-not-fresh", "a second call (same seed, same arguments) returned objects of the first call's graph instead of a new graph")
    finally:
        random.setstate(state)
    classes = [f"count<=5" if count <= 5 else "count>5", "default-connectivity" if case["conn"] is None else "explicit-connectivity"]
    if count <= 5 and case["conn"] is None:
        classes.append("small-count-default-connectivity")
    return dict(nt=count >= 2 and nlinks >= 1, classes=classes)


def json_key(case):
    import json

    return json.dumps(case, sort_keys=True)


def signature(case):
    """Seed, call randgraph once, describe the result (used in this process and in fresh interpreters)."""
    from edgegraph.builder import randgraph
    from eglib import classes as C

    state = random.getstate()
    try:
        random.seed(case["seed"])
        kw = dict(count=case["count"], edge=C.LINK_CLASSES[CLSMAP[case["cls"]]], ensurelink=case["ens"])
        if case["conn"] is not None:
            kw["connectivity"] = case["conn"]
        u = randgraph.randgraph(**kw)
        return [(v.i, [(l.v1.i, l.v2.i) for l in v.links]) for v in u.vertices]
    finally:
        random.setstate(state)


def check_fresh(case, here=None):
    """The very FIRST randgraph call of a process (two separate fresh interpreters) against a later call here."""
    from eglib import fresh

    if here is None:
        here = signature(case)   # touches the GLOBAL random state: never call this concurrently from threads
    sigs = []
    for _ in range(2):
        r = fresh.run_jobs([dict(blob=None, flag=False, want=["c20"], case=case)])[0]
        if r["error"]:
            raise Violation("randgraph-raised-in-fresh-interpreter", r["error"])
        sigs.append(r["sig"])
    require(sigs[0] == sigs[1], "not-reproducible", "same seed, two fresh interpreters, different graphs")
    require(sigs[0] == here, "not-reproducible", "same seed: the first call of a fresh interpreter and a later call in this process give different graphs")
    return dict(nt=case["count"] >= 2, classes=["fresh-interpreter-first-call"])


_check_case_inproc = check_case


def check_case(case):  # noqa: F811
    if case.get("fresh"):
        return check_fresh(case["case"])
    return _check_case_inproc(case)


def extra_phase(tier, seed, deadline):
    import collections
    from concurrent.futures import ThreadPoolExecutor

    from eglib import driver

    n = 8 if tier == "quick" else 64
    cases = [{"count": 3 + (seed + k) % 9, "cls": k % 6, "conn": [None, 0.5, 1.0][k % 3], "ens": bool(k % 2), "seed": seed * 1000 + k} for k in range(n)]
    failures, nt, errors = {}, set(), []

    # the in-process signatures are computed here, sequentially: they seed and restore the global `random` state,
    # which the worker threads below (they only wait for subprocesses) must not do concurrently
    here_sigs = {json_key(c): signature(c) for c in cases}

    def one(case):
        try:
            check_fresh(case, here_sigs[json_key(case)])
            return case, None
        except Violation as v:
            return case, v
        except Exception as e:  # noqa
            return case, e

    with ThreadPoolExecutor(8) as ex:
        for case, err in ex.map(one, cases):
            if isinstance(err, Violation):
                failures.setdefault(err.kind, ({"fresh": True, "case": case}, err.detail))
            elif err is not None:
                errors.append(repr(err))
            else:
                nt.add(driver.case_hash({"fresh": case}))
    return dict(
        evaluations=len(cases), skipped_budget=0, nt=nt, nt_enum=0, classes=collections.Counter({"fresh-interpreter-first-call": len(cases)}),
        excluded=0, samples=[], failures=failures, harness_errors=errors[:2], by_phase=collections.Counter({"fresh-interpreter": len(cases)}),
        info={"fresh_interpreter_cases": len(cases), "note": "seed + randgraph as the very first call of two separate fresh interpreters, compared with each other and with a later call in this process"},
    )
