"""
C03 — every mutation has exactly its documented effect and no other
(agreement with the plain reference model after every call).

Case: {"nv": 2..5, "nuni": 0..2, "ops": [[name, i, j, k], ...]}
"""
from hypothesis import strategies as st

from eglib import h
from eglib.driver import Violation, require
from eglib.model import Model, ModelRaises
from eglib.world import World

ID = "C03"
LEVEL = "exploration"
DESIGN_REF = "DESIGN.md §3 C03, §2.3"
RULE = (
    "Histories over 2-5 vertices (0-2 of them universes that are also linkable vertices) of: edge constructors "
    "(6 link classes, ends from pool+None), Link.add_vertex on two-ended links (a third listing, possibly of a vertex already listed), Link.unlink_from (links that lose an end; a later unlink / dontdup call on a vertex holding such a link may raise, but then must have changed nothing), v1=/v2= (only on links that currently list at least two vertices - model "
    "precondition; skipped ops are counted), link_directed/link_undirected/link_from_to with dontdup on/off, "
    "unlink(a,b,destroy) incl. a is b, the four universe membership calls, bulk creation of 7-33 parallel links / 7-40 extra universe members at once (size thresholds), toggles of Vertex.NEIGHBOR_CACHING in between, Vertex(universes=[..with repeats]), "
    "Universe(vertices=[..with repeats]) and ill-typed edge constructor arguments (int/str/Link/object as an "
    "end).  After EVERY call the full observable snapshot (each vertex's ordered links and universes, each "
    "link's ordered ends and v1/v2, each universe's ordered members) must equal the reference model's, and the "
    "return value must be the model's (new link of the requested class / one of the joining links and nothing "
    "created under dontdup / exactly the removed set for unlink(destroy=False) / None; TypeError and an "
    "unchanged snapshot for ill-typed ends; a raise and an unchanged snapshot for removing a non-member).  "
    "unlink is also called with `destroy` omitted (default True) or passed positionally and link_* with `dontdup` omitted; every list / set the library hands out is scribbled on by the harness after reading.  Bulk creation of 7-130 parallel links at once.  End assignments are spelled lnk.v1 = x or (item access) lnk['v1'] = x; universes may carry restrictive laws.  Non-trivial = >= 4 state-changing calls including an end assignment, or an unlink / end assignment that "
    "detaches a link from a vertex holding >= 2 links (order preservation exercised); distinct = distinct case value."
)
ASSUMPTIONS = [
    "of the four low-level association calls Link.unlink_from (the link stops listing the vertex, the vertex stops listing the link) and Link.add_vertex on a two-ended link are generated (the vertex is appended to the link's vertices: a link may then name a vertex several times, which is what 'detaches the previous vertex only if it is no longer an end' is about); Vertex.add_to_link/remove_from_link and Link.unlink_from are covered by C01/C05 with weaker oracles because the documentation does not fix their exact effect on multiply-listed vertices",
    "operations on a vertex that holds a link listing a single vertex are skipped (TwoEndedLink.other is undefined there)",
    "under dontdup any joining link may be returned; removing a non-member may raise any exception type",
]
LEVEL_TEXT = (
    "Model-based exploration with a bounded-exhaustive core (every history of <= 3 / <= 4 calls from a 54-op alphabet over 2 vertices + None) plus Hypothesis histories up to 30 (quick) / 80 (thorough) calls over tiny pools, compared "
    "with an independent dict/list model after every call, return values included.  A frame property can only be "
    "attacked by comparing the whole state, which is what the snapshot equality does."
)
LEVEL_NOTE = (
    "Trusts the reference model in eglib/model.py (written from the property statement and docstrings, validated "
    "against the repaired tree on >10^5 histories) and the snapshot reader (public accessors only)."
)
TECHNIQUE = "model-based stateful PBT (exhaustive small-scope + Hypothesis op-list histories vs. reference model, compared after every call)"

OPS_W = (
    ["edge"] * 6 + ["v1"] * 4 + ["v2"] * 4 + ["link"] * 4 + ["unlink"] * 3
    + ["ua", "ur", "va", "vr"] + ["newv_u", "newu", "newu2", "newv_u2", "lawsnone", "edge_bad"] + ["flag", "bulk", "bulk_u"] + ["av", "uf"] + ["bulk_big"]
)

# coverage-guided extra engine (atheris): executions per fuzzer process, 16 processes
FUZZ = dict(quick=0, thorough=30000)


def budget(tier):
    if tier == "quick":
        return dict(shards=16, examples=3000, time_s=50)
    return dict(shards=16, examples=80000, time_s=850)


def strategy(tier):
    maxlen = 30 if tier == "quick" else 80
    op = st.tuples(st.sampled_from(OPS_W), st.integers(0, 11), st.integers(0, 11), st.integers(0, 47))
    return st.builds(
        lambda nv, nuni, ops, vcls: {"nv": nv, "nuni": min(nuni, nv - 1), "vcls": vcls, "dupuid": bool(vcls and vcls[0] == 0 and len(vcls) == 2), "ops": [list(o) for o in ops]},
        st.integers(2, 5),
        st.integers(0, 2),
        st.lists(op, max_size=maxlen),
        st.one_of(st.none(), st.lists(st.integers(0, 5), min_size=1, max_size=4)),
    )


def enumerate_cases(tier, shard=0, nshards=1):
    import itertools

    from eglib.driver import sharded

    depth = 3 if tier == "quick" else 4
    E = (0, 1, 5)
    alpha = [("edge", x, y, cls) for cls in (0, 1) for x in E for y in E]
    alpha += [(nm, l, x, 0) for nm in ("v1", "v2") for l in (0, 1) for x in E]
    alpha += [("link", x, y, dd + 2 * fn) for dd in (0, 1) for fn in (0, 1) for x in (0, 1) for y in (0, 1)]
    alpha += [("unlink", x, y, d) for x in (0, 1) for y in (0, 1) for d in (0, 1)]

    def gen():
        for k in range(1, depth + 1):
            for seq in sharded(itertools.product(alpha, repeat=k), shard, nshards):
                yield {"nv": 2, "nuni": 0, "vcls": None, "ops": [list(o) for o in seq]}

    n = sum(len(alpha) ** k for k in range(1, depth + 1))
    return gen(), (
        f"all {n} histories of 1..{depth} calls from a {len(alpha)}-op alphabet (edge constructors of DirectedEdge / "
        f"UnDirectedEdge with ends in {{a,b,None}}^2, v1=/v2= on the first two links, link_directed / link_undirected with "
        f"dontdup on/off, unlink with destroy on/off) over 2 vertices, each compared with the reference model after every call"
    )


def compare(w, m, where):
    real = w.snapshot()
    exp = m.snapshot()
    if real != exp:
        for key in ("links_of", "ends", "unis_of", "members"):
            if real[key] != exp[key]:
                raise Violation(f"model-mismatch:{key}", f"{where}: real {key}={real[key]} model {key}={exp[key]}")
    # v1 / v2 accessors agree with the ordered ends
    for k, l in enumerate(w.ls):
        e = m.ends[k]
        if len(e) >= 2:
            require(l.v1 is w.v(e[0]) and l.v2 is w.v(e[1]), "v1v2-accessor", f"{where}: link {k} v1/v2 do not match its ends {e}")


def check_case(case):
    w = World(case["nv"], case.get("nuni", 0), case.get("vcls"), bool(case.get("dupuid")))
    m = Model(len(w.vs), w.uidx)
    classes = set()
    if any(not bool(v) for v in w.vs):
        classes.add("falsy-vertex-in-pool")
    changing = 0
    skipped = 0
    assigns = 0
    order_exercised = False
    compare(w, m, "initially")
    for step, op in enumerate(case["ops"]):
        r = w.resolve(op)
        if r is None:
            continue
        name = r[0]
        if name == "flag":
            from edgegraph.structure import Vertex

            Vertex.NEIGHBOR_CACHING = bool(r[1] & 1)
            classes.add("caching-flag-toggled")
            continue
        if name in ("bulk", "bulk_u"):
            classes.add("bulk:" + name)
        if name in ("v1", "v2") and len(m.ends[r[1]]) < 2:
            skipped += 1
            classes.add("skipped:end-assignment-on-link-without-two-ends")
            continue
        if name == "uf":
            classes.add("Link.unlink_from")
        if name == "av":
            # only on links that list exactly two vertices so far (the result lists three); what Link.add_vertex
            # means for a link that has lost an end is not documented
            if len(m.ends[r[1]]) != 2:
                skipped += 1
                continue
            classes.add("third-vertex-listed-on-a-link")
        degenerate_here = name in ("unlink", "link") and any(0 < len(m.ends[l]) < 2 for l in m.links_of[r[1] if name == "unlink" else r[2]])
        if degenerate_here:
            # the vertex holds a link that lists a single vertex, where TwoEndedLink.other() is undefined
            # (IndexError).  Whether the call gets that far is not pinned; what IS required: if it raises, NOTHING
            # has changed (the search comes before any detaching); if it returns, it did what the model says.
            classes.add("call-on-vertex-holding-a-one-ended-link")
            before_d = w.snapshot()
            nl_before = len(w.ls)
            try:
                ret_d = w.execute(r)
            except Exception:  # noqa
                require(w.snapshot() == before_d and len(w.ls) == nl_before, "raise-changed-state", f"step {step} {list(r)}: the call raised but the graph changed")
                compare(w, m, f"step {step} {list(r)} (raised)")
                continue
            exp_d = m.apply(r)
            if exp_d[0] == "newlink":
                require(len(w.ls) == nl_before + 1, "return-value", f"step {step}: no new link")
            compare(w, m, f"step {step} {list(r)}")
            changing += 1
            continue
        where = f"step {step} {list(r)}"
        # classification (on the model, before the call)
        if name in ("v1", "v2"):
            assigns += 1
            e = m.ends[r[1]]
            pos = 0 if name == "v1" else 1
            old = e[pos]
            if r[2] is not None and r[2] == old:
                classes.add("assign-same-end")
            if r[2] is not None and r[2] == e[1 - pos]:
                classes.add("assign-other-end")
            if e[0] is not None and e[0] == e[1]:
                classes.add("assign-on-self-loop")
            if old is not None and old != e[1 - pos] and old != r[2] and len(m.links_of[old]) >= 2:
                order_exercised = True
        if name == "unlink":
            if r[3] is None:
                classes.add("unlink-destroy-omitted")
            rem = m.joining(r[1], r[2])
            if rem and (len(m.links_of[r[1]]) > len(rem) or len(m.links_of[r[2]]) > len(rem)):
                order_exercised = True
                classes.add("unlink-among-other-links")
            if len(rem) >= 2:
                classes.add("unlink-parallel-links")
        if name == "link" and r[4]:
            classes.add("dontdup-hit" if m.joining(r[2], r[3]) else "dontdup-miss")
        nlinks_before = len(w.ls)
        before = w.snapshot()
        try:
            exp = m.apply(r)
        except ModelRaises as mr:
            # the call must raise and change nothing
            try:
                w.execute(r)
            except Exception as e:  # noqa
                if str(mr) == "TypeError":
                    require(isinstance(e, TypeError), "wrong-exception-type", f"{where}: expected TypeError, got {e!r}")
                classes.add("raised-as-required:" + name)
            else:
                raise Violation("no-raise", f"{where}: call was required to raise ({mr}) but returned")
            require(w.snapshot() == before, "raise-changed-state", f"{where}: snapshot changed although the call raised")
            compare(w, m, where)
            continue
        try:
            ret = w.execute(r)
        except Exception as e:  # noqa
            raise Violation("call-raised", f"{where}: {e!r}")
        changing += 1
        vi, li = w.index_maps()
        if exp[0] == "newlink":
            require(len(w.ls) == nlinks_before + 1 and ret is w.ls[-1], "return-value", f"{where}: did not return a new link")
            want = w.classes.LINK_CLASSES[m.cls[exp[1]]]
            require(type(ret) is want, "return-value", f"{where}: new link has class {type(ret).__name__}, wanted {want.__name__}")
        elif exp[0] == "oneof":
            require(len(w.ls) == nlinks_before, "dontdup-created", f"{where}: a link was created although {exp[1]} already join the pair")
            require(li.get(id(ret)) in exp[1], "return-value", f"{where}: returned link {li.get(id(ret))} is not one of the joining links {exp[1]}")
        elif exp[0] == "set":
            require(isinstance(ret, (set, frozenset)), "return-value", f"{where}: unlink(destroy=False) returned {type(ret).__name__}")
            require(sorted(li.get(id(x), -1) for x in ret) == sorted(exp[1]), "return-value", f"{where}: unlink returned {sorted(li.get(id(x), -1) for x in ret)}, model removed {exp[1]}")
            h.spoil(ret)        # the returned set is the caller's
        elif exp[0] == "none":
            if name == "unlink":
                require(ret is None, "return-value", f"{where}: unlink(destroy=True) returned {ret!r}")
        compare(w, m, where)
    nt = changing >= 4 and (assigns >= 1 or order_exercised)
    if order_exercised:
        classes.add("order-preservation-exercised")
    return dict(nt=nt, classes=sorted(classes))
