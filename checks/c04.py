"""
C04 — neighbors() follows exactly the documented direction / unknown-type / filter rules.

Case: {"g": graph desc (eglib/graphs.py), "f": filter spec | None}
Every vertex x 3 directions x 3 unknown-handling modes is evaluated per case.
"""
from eglib import h
import itertools

from hypothesis import strategies as st

from eglib import graphs
from eglib.driver import Violation, require, sharded
from eglib.model import ANY, BACKWARD, ERROR, FORWARD, NEIGHBOR, NONNEIGHBOR, RefNotImplemented, ref_neighbors

ID = "C04"
LEVEL = "exploration"
DESIGN_REF = "DESIGN.md §3 C04"
RULE = (
    "(a) exhaustive decision table: every ordered pair (and every single one) of links at one vertex v, each link "
    "one of 6 classes (DirectedEdge, UnDirectedEdge, a subclass of each, another TwoEndedLink class and a subclass "
    "of it) x position of v (origin, destination, both ends) x filters {none, accept-all, reject-all, 6 selective "
    "truth tables, 2 falsy callable objects}; (b) Hypothesis multigraphs with <= 8 vertices and <= 14 links (self-loops, parallel and "
    "mixed-class links, link order diversified by end re-assignments) x filters drawn as truth tables over "
    "(link index, vertex index).  Cases run with neighbor caching off or on (then the 9 settings are queried back to back in a generated order).  For every vertex x 3 directions x 3 unknown-handling modes the result (as an "
    "index list, order and multiplicity significant) must equal the reference decision table, "
    "NotImplementedError exactly when the reference raises; the whole table is evaluated a second time on a copy (deepcopy / pickle / nrpickler) of the already-queried graph; plus the FORWARD/BACKWARD multiplicity duality for "
    "no filter and edge-only filters.  In the first and every 25th case of a process a star of UNNAMED vertices (referenced by nobody but the graph) is queried after a garbage collection.  Calls with the optional arguments omitted are compared with the documented defaults spelled out; one filter family is RE-ENTRANT (it asks for the candidate neighbour's own neighbours before deciding); every list received is scribbled on by the harness after reading.  A few worlds are scaled up: one vertex gets 65 / 70 further links to fresh leaves (mixed classes and orientations, optionally a directed / undirected self-loop among them).  Vertices that are universes may CONTAIN other linked vertices of the graph (their links are not the universe's).  Non-trivial = some vertex has >= 2 links of >= 2 kinds, or a self-loop, or "
    "parallel links, or the filter rejects some and accepts some of that vertex's links; distinct = distinct case value."
)
ASSUMPTIONS = [
    "links have both ends assigned (a None end makes 'the opposite end' None; excluded by construction)",
    "filters are pure functions of (link identity, vertex identity); they may be callable objects whose truth value is False, and they may be PARTIAL: defined only for links that qualify under the direction / unknown-type rules (asked about any other link they raise)",
    "value-equal vertices (a Vertex subclass overriding __eq__/__hash__) appear only in graphs built by constructors alone",
    "under LNK_UNKNOWN_ERROR, when the filter rejects an unknown-class link both 'raises NotImplementedError' and 'skips it' are accepted (the statement fixes neither)",
]
LEVEL_TEXT = (
    "Exploration; the decision table for scope '<= 2 links at v' is enumerated completely (exhaustive: true for "
    "that scope), and ~5*10^4 (quick) / 10^6 (thorough) random multigraphs extend it to many links per vertex."
)
LEVEL_NOTE = "Trusts ref_neighbors in eglib/model.py (20 lines over ints, written from the statement). Search, not proof."
TECHNIQUE = "exhaustive decision-table enumeration + Hypothesis multigraphs against a reference implementation, plus a metamorphic FORWARD/BACKWARD duality"

class _FilterMisuse(Exception):
    pass


DIRS = (FORWARD, ANY, BACKWARD)
UNKS = (NONNEIGHBOR, NEIGHBOR, ERROR)


def budget(tier):
    if tier == "quick":
        return dict(shards=16, examples=2500, time_s=50)
    return dict(shards=16, examples=60000, time_s=850)


def strategy(tier):
    return st.builds(lambda g, f, cache, order: {"g": g, "f": f, "cache": cache, "order": order}, st.one_of(graphs.graph_descs(), graphs.graph_descs(classes=12, wide=True), graphs.with_scale(graphs.graph_descs(classes=12, wide=True, min_v=2, min_e=2), hubs=(65, 70), chains=(), rate=60), graphs.eq_graph_descs()), graphs.filter_specs_objs, st.booleans(), st.integers(0, 5))


_TABLE_FILTERS = [None, {"ft": "pair", "mask": 0xFFFF}, {"ft": "pair", "mask": 0}, {"ft": "pair", "mask": 0, "falsy": True}, {"ft": "edge", "mask": 0b01, "falsy": True}] + [
    {"ft": ft, "mask": m} for ft in ("edge", "pair") for m in (0b01, 0b10, 0b1001)
]


def enumerate_cases(tier, shard=0, nshards=1):
    # v = vertex 0, w = vertex 1.  position: origin (0,1), destination (1,0), both (0,0)
    single = [[c, a, b] for c in range(6) for a, b in ((0, 1), (1, 0), (0, 0))]
    configs = [[s] for s in single] + [[s, t] for s in single for t in single]

    def gen():
        for edges in sharded(configs, shard, nshards):
            for f in _TABLE_FILTERS:
                yield {"g": {"nv": 2, "vcls": None, "edges": edges, "reassign": []}, "f": f}
                yield {"g": {"nv": 2, "vcls": None, "edges": edges, "reassign": []}, "f": f, "cache": True, "order": len(edges) + (0 if f is None else f["mask"])}

    return gen(), (
        f"all {2 * len(configs) * len(_TABLE_FILTERS)} rows (each with neighbor caching off and on): 1 or 2 links at one vertex, each of 6 link classes x "
        f"3 positions of v, x 11 filters (two of them falsy callable objects), each evaluated under 3 directions x 3 unknown-handling modes at both vertices"
    )


def run_real(vs, v, d, u, ff, vi, churn=False):
    from edgegraph.traversal import helpers

    if churn and ff is not None and not hasattr(ff, "fn"):
        # caching on: a throw-away filter of other behaviour first, then a NEW callable with the case's truth table
        # (short-lived filter objects must not be confused with one another)
        try:
            h.neighbors(vs[v], d, u, lambda e, x: False)
        except NotImplementedError:
            pass
        inner = ff
        ff = lambda e, x: inner(e, x)
    try:
        out = h.neighbors(vs[v], d, u, ff)
    except NotImplementedError:
        return "NIE"
    return [vi.get(id(x), "?") if x is not None else None for x in out]


def check_case(case):
    from eglib import trav

    # with neighbor caching on, the 9 settings are queried one after the other on the same vertex with the
    # same filter object, in a generated order: an answer cached for one setting must not serve another
    with trav.caching(case.get("cache")):
        return _check_case(case)


def _anonymous_neighbours(case):
    """A graph whose vertices and links are referenced by NOBODY but the graph itself (a builder that returns only
    its root): the neighbours are still there after a garbage collection."""
    import gc

    from eglib import classes as C

    k = case.get("order", 0)
    E = C.LINK_CLASSES[k % 4]
    root = C.Vertex(attributes={"i": -1})
    for n in range(3):
        if (k + n) % 2:
            E(root, C.Vertex(attributes={"i": n}))
        else:
            E(C.Vertex(attributes={"i": n}), root)
    gc.collect()
    got = sorted((getattr(x, "i", "not-a-vertex:%r" % (x,)) if x is not None else "None" for x in h.neighbors(root, ANY, NEIGHBOR)), key=str)
    require(got == [0, 1, 2], "neighbours-lost", f"a star built from unnamed vertices ({E.__name__}), after gc.collect(): neighbors(root, ANY) -> {got}, expected the three vertices 0, 1, 2")


_ANON = [0]


def _check_case(case):
    _ANON[0] += 1
    if _ANON[0] % 25 == 1:       # (a full garbage collection is not cheap: the first and then every 25th case of a process)
        _anonymous_neighbours(case)
    vs, ls = graphs.build(case["g"])
    info = _check_world(case, vs, ls)
    if not case["g"].get("eq") and ls and case.get("order", 0) % 2:
        # a link end is re-assigned after the first evaluation: the table must follow the new graph
        k = case["order"] % len(ls)
        tgt = vs[(case["order"] // 2) % len(vs)]
        if case["order"] % 4 == 1:
            ls[k].v2 = tgt
        else:
            ls[k].v1 = tgt
        _check_world(case, vs, ls)
        info["classes"].append("re-checked-after-end-reassignment")
    if not case["g"].get("eq"):
        # the same table on a COPY of the world made after it was queried (deepcopy / pickle / nrpickler):
        # "for every graph" includes graphs that came out of a pickle
        vs2, ls2, _ = graphs.copied(vs, ls, None, case.get("order", 0))
        _check_world(case, vs2, ls2)
        info["classes"].append("re-checked-on-copy-of-queried-graph")
    return info


def _check_world(case, vs, ls):
    import itertools

    G = graphs.abstract(vs, ls)
    vi = {id(v): i for i, v in enumerate(vs)}
    li = {id(l): i for i, l in enumerate(ls)}
    f = graphs.make_filter(case["f"])
    ff = graphs.real_filter2(f, vi, li, falsy=graphs.is_falsy(case["f"]))
    reentrant = False
    if ff is not None and not hasattr(ff, "fn") and case.get("order", 0) % 5 == 4:
        # a RE-ENTRANT filter: deciding about a neighbour involves asking for that neighbour's own neighbours
        # ("keep those that have ..."): the outer call must not be disturbed by the inner ones
        pure_ff = ff
        from edgegraph.traversal import helpers as _helpers

        def ff(e, x, _pure=pure_ff):
            if x is not None:
                try:
                    _helpers.neighbors(x, h.D(ANY), h.U(NEIGHBOR))
                except NotImplementedError:
                    pass
            return _pure(e, x)

        reentrant = True
    classes = {"caching-on" if case.get("cache") else "caching-off"}
    if reentrant:
        classes.add("re-entrant-filter")
    if graphs.is_falsy(case["f"]):
        classes.add("falsy-callable-filter")
    if case["g"].get("eq"):
        classes.add("value-equal-vertices")
    nt = False
    table = {}
    for v in range(len(vs)):
        lk = G.links_of[v]
        kinds = {G.link[l][0] for l in lk}
        if len(lk) >= 2 and len(kinds) >= 2:
            nt = True
            classes.add("mixed-kinds-at-vertex")
        if any(G.link[l][1] == G.link[l][2] for l in lk):
            nt = True
            classes.add("self-loop")
        ends = [frozenset(G.link[l][1:]) for l in lk]
        if len(set(ends)) < len(ends):
            nt = True
            classes.add("parallel-links")
        if "X" in kinds:
            classes.add("unknown-class-link")
        if f is not None and lk:
            acc = [f(l, (G.link[l][2] if G.link[l][1] == v else G.link[l][1])) for l in lk]
            if any(acc) and not all(acc):
                nt = True
                classes.add("selective-filter")
        perm_u = list(itertools.permutations(UNKS))[case.get("order", 0) % 6]
        perm_d = list(itertools.permutations(DIRS))[(case.get("order", 0) + v) % 6]
        for d in perm_d:
            for u in perm_u:
                lenient = []
                try:
                    exp = ref_neighbors(G, v, d, u, f, lenient=lenient)
                except RefNotImplemented:
                    exp = "NIE"
                ffx = ff
                if ff is not None and case.get("order", 0) % 3 == 2 and not hasattr(ff, "fn"):
                    # a PARTIAL filter: defined only for the links it is documented to be asked about, i.e. links
                    # that qualify under the direction / unknown-type rules; anything else makes it raise
                    qual = set()
                    for l in lk:
                        kind, a_, b_ = G.link[l]
                        try:
                            from eglib.model import ref_follow

                            if ref_follow(kind, a_, b_, v, d, u):
                                qual.add(l)
                        except RefNotImplemented:
                            qual.add(l)
                    inner_ff = ff

                    def ffx(e, x, _q=qual, _inner=inner_ff):
                        if li[id(e)] not in _q:
                            raise _FilterMisuse(f"filter asked about link {li[id(e)]}, which does not qualify")
                        return _inner(e, x)

                try:
                    got = run_real(vs, v, d, u, ffx, vi, churn=bool(case.get("cache")) and bool(case.get("order", 0) & 1))
                except _FilterMisuse as e:
                    raise Violation("filter-called-on-non-qualifying-link", f"neighbors(v{v}, direction={d}, unknown={u}): {e}")
                table[(v, d, u)] = got
                where = f"neighbors(v{v}, direction={d}, unknown={u}, filter={case['f']})"
                if lenient and exp != "NIE":
                    classes.add("lenient:error-mode-link-rejected-by-filter")
                    if got == "NIE":
                        continue
                if got != exp:
                    kind = "neighbors-mismatch"
                    if exp == "NIE":
                        kind = "missing-NotImplementedError"
                    elif got == "NIE":
                        kind = "unexpected-NotImplementedError"
                    raise Violation(kind, f"{where}: got {got}, expected {exp}; links at v: {[(l,) + tuple(G.link[l]) for l in lk]}")
    # omitted arguments: the documented defaults are FORWARD, LNK_UNKNOWN_ERROR and no filter
    if case["f"] is None:
        from edgegraph.traversal import helpers as _helpers

        for v in range(len(vs)):
            for d in (None,) + tuple(DIRS):
                try:
                    out = _helpers.neighbors(vs[v]) if d is None else _helpers.neighbors(vs[v], h.D(d))
                    got = [vi.get(id(x), "?") if x is not None else None for x in out]
                except NotImplementedError:
                    got = "NIE"
                exp = table[(v, FORWARD if d is None else d, ERROR)]
                if got != exp:
                    raise Violation("defaults-mismatch", f"neighbors(v{v}{'' if d is None else ', direction=%d' % d}) with the remaining arguments omitted gives {got}; with the documented defaults spelled out {exp}")
        classes.add("arguments-omitted")
    # metamorphic duality FORWARD(v) <-> BACKWARD(w), no filter or edge-only filter
    if case["f"] is None or case["f"]["ft"] == "edge":
        for u in UNKS:
            for v in range(len(vs)):
                fw = table[(v, FORWARD, u)]
                if fw == "NIE":
                    continue
                for w in range(len(vs)):
                    bw = table[(w, BACKWARD, u)]
                    if bw == "NIE":
                        continue
                    if fw.count(w) != bw.count(v):
                        raise Violation(
                            "forward-backward-duality",
                            f"v{w} occurs {fw.count(w)}x in FORWARD(v{v}) but v{v} occurs {bw.count(v)}x in BACKWARD(v{w}) (unknown={u})",
                        )
    return dict(nt=nt, classes=sorted(classes))
