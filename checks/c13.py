"""
C13 — read-only operations never change the graph, even when a user callback raises.

Case: {"g": graph desc, "uni": [member idx...], "cache": bool}
For the world of a case every read-only entry point is run cleanly, and then,
for every callback c and EVERY k in 1..N_c (N_c = invocations in the clean run),
re-run with a wrapper that raises at the k-th invocation.
"""
from eglib import h
from hypothesis import strategies as st

from eglib import graphs
from eglib.driver import Violation

ID = "C13"
LEVEL = "fault_enumeration"
DESIGN_REF = "DESIGN.md §3 C13"
RULE = (
    "Hypothesis worlds (multigraphs <= 5 vertices / <= 8 links of 6 classes incl. self-loops and unknown-class "
    "links, a universe over a subset, extra runtime attributes) x caching on/off x read-only entry point in "
    "{neighbors(filterfunc), find_links(filterfunc), bft/ibft, dft_recursive/idft_recursive, "
    "dft_iterative/idft_iterative (ff_via, ff_result), bfs, dfs_recursive, dfs_iterative, basic_render(rfunc, sort), "
    "render_to_plantuml_src(user_render_func), make_pyvis_net and pyvis_render_customizable(rvfunc, refunc), "
    "nrpickler.dumps}, a sort key whose values cannot be ordered (the call fails without any callback raising), optionally a universe whose first 260 members are isolated fillers (then the first, middle and last fault point of each callback), also with RE-ENTRANT callbacks (the callback itself renders / queries an overlapping universe) and on graphs containing a link that has lost an end.  Fault enumeration: a clean run with counting wrappers measures N_c invocations of each "
    "callback; then for every callback and every k in 1..N_c the call is repeated with a wrapper raising a private "
    "exception at the k-th invocation.  Oracle: the deep snapshot (attribute-name set and canonicalised values of "
    "every vertex, link, universe and law set via vars()) after the clean run and after every faulted run equals "
    "the one before, and a repeat with the well-behaved callback returns the clean run's answer (for the last fault point of every entry point the repeat is issued from another thread, which must return).  Non-trivial "
    "fault point = N_c >= 2 and k >= 2 (the fault fires after work has been done); distinct = (world, caching, "
    "entry point, callback, k)."
)
ASSUMPTIONS = [
    "callbacks are pure apart from the injected fault",
    "private bookkeeping attributes other than the structural ones (_links, _vertices, _universes, _uid, _laws, _applies_to and the law flags) - the neighbor-cache memo, whatever it is called - and Vertex._CACHE_STATS may legitimately change on a read: only their presence is compared",
    "the options dict given to render_to_plantuml_src is the caller's, not part of the graph (the library compiles its show_attrs entry in place)",
]
LEVEL_TEXT = (
    "Fault enumeration: for each generated world, all fault points (every invocation index of every user callback of "
    "every read-only entry point, caching on and off) are enumerated and the whole object state is compared after "
    "each; worlds themselves are sampled by Hypothesis."
)
LEVEL_NOTE = "Trusts the vars()-based deep snapshot. The set of entry points is the one named in the statement. Fault = an exception raised by the callback: at odd invocation indices an Exception subclass, at even ones a class derived from BaseException only (like KeyboardInterrupt)."
TECHNIQUE = "exhaustive per-case fault-point enumeration (k-th-invocation raising wrappers) over Hypothesis-generated worlds, with a deep-state oracle"


def budget(tier):
    if tier == "quick":
        return dict(shards=16, examples=400, time_s=55)
    return dict(shards=16, examples=12000, time_s=850)


def strategy(tier):
    return st.builds(
        lambda g, uni, cache, degen, fill: {"g": g, "uni": list(dict.fromkeys(x % g["nv"] for x in uni)), "cache": cache, "degen": degen, **({"fill": fill} if fill else {})},
        graphs.graph_descs(max_v=5, max_e=8, min_v=1, min_e=0),
        st.lists(st.integers(0, 4), min_size=1, max_size=5),
        st.booleans(),
        st.one_of(st.none(), st.none(), st.tuples(st.integers(0, 7), st.integers(0, 1))),
        # a few universes whose first 260 members are isolated fillers (size-dependent code paths of the entry points)
        st.sampled_from([0] * 319 + [260]),
    )


STRUCTURAL = {"_links", "_vertices", "_universes", "_uid", "_laws", "_applies_to", "_edge_whitelist", "_mixed_links", "_cycles", "_multipath", "_multiverse"}


class Boom(Exception):
    """The injected fault."""


class BoomBase(BaseException):
    """The injected fault, derived from BaseException only (as KeyboardInterrupt or a cancellation is)."""


def deep_snapshot(objs):
    idx = {id(o): i for i, o in enumerate(objs)}

    def val(x, d=0):
        if id(x) in idx:
            return ("ref", idx[id(x)])
        if isinstance(x, (list, tuple)):
            return [val(y, d + 1) for y in x]
        if isinstance(x, dict):
            return sorted((repr(k), val(v, d + 1)) for k, v in x.items())
        if isinstance(x, (set, frozenset)):
            return sorted(repr(val(y, d + 1)) for y in x)
        return repr(x)

    def entry(k, v):
        # values are compared for every public attribute and for the private attributes that hold the graph's
        # structure; of any OTHER private attribute (memos, counters: the library's own bookkeeping, whatever it is
        # called) only the presence is compared - a read may update it, but may not add or remove it
        if k.startswith("_") and k not in STRUCTURAL:
            return (k, "<private>")
        return (k, val(v))

    return [sorted(entry(k, v) for k, v in vars(o).items()) for o in objs]


def plain(x):
    """Comparable form of an entry point's result."""
    return x


def entries(vs, ls, u, start, sub):
    from edgegraph.output import nrpickler, plaintext, plantuml, pyvis
    from edgegraph.structure import DirectedEdge, TwoEndedLink, UnDirectedEdge, Vertex
    from edgegraph.traversal import breadthfirst as B
    from edgegraph.traversal import depthfirst as D
    from edgegraph.traversal import helpers

    vi = {id(v): i for i, v in enumerate(vs)}
    li = {id(l): i for i, l in enumerate(ls)}
    ix = lambda seq: [vi.get(id(x), "?") for x in seq]
    title = lambda v: "v%d" % v.i

    def opts(urf=None):
        o = {
            "skinparams": {},
            Vertex: {"type": "object", "show_attrs": ["^i$"], "title_format": "v{i}"},
            DirectedEdge: {"v1side": "", "v2side": ">"},
            UnDirectedEdge: {"v1side": "", "v2side": ""},
            TwoEndedLink: {"v1side": "x", "v2side": "x"},
        }
        if urf is not None:
            o[Vertex]["user_render_func"] = urf
        return o

    def pv(net):
        return ([dict(n) for n in net.nodes], [dict(e) for e in net.edges])

    kw = h.kw(1, 1)
    E = [
        ("neighbors(filterfunc)", lambda f: [ix(h.neighbors(v, 1, 1, f)) for v in vs], lambda e, v: True),
        ("neighbors(filterfunc,FORWARD)", lambda f: [ix(h.neighbors(v, 0, 1, f)) for v in vs], lambda e, v: vi[id(v)] % 2 == 0),
        ("find_links(filterfunc)", lambda f: [sorted(li[id(l)] for l in h.find_links(a, b, False, 1, f)) for a in vs for b in vs], lambda e: True),
        ("bft(ff_via)", lambda f: ix(B.bft(u, start, ff_via=f, **kw)), lambda e, v: True),
        ("ibft(ff_result)", lambda f: ix(B.ibft(u, start, ff_result=f, **kw)), lambda v: True),
        ("bft(ff_via,None-universe)", lambda f: ix(B.bft(None, start, ff_via=f, **kw)), lambda e, v: True),
        ("dft_recursive(ff_via)", lambda f: ix(D.dft_recursive(u, start, ff_via=f, **kw)), lambda e, v: True),
        ("idft_recursive(ff_result)", lambda f: ix(D.idft_recursive(u, start, ff_result=f, **kw)), lambda v: vi[id(v)] % 2 == 0),
        ("dft_iterative(ff_result)", lambda f: ix(D.dft_iterative(u, start, ff_result=f, **kw)), lambda v: True),
        ("idft_iterative(ff_via)", lambda f: ix(D.idft_iterative(u, start, ff_via=f, **kw)), lambda e, v: True),
        ("basic_render(rfunc)", lambda f: plaintext.basic_render(u, rfunc=f), title),
        ("basic_render(sort)", lambda f: plaintext.basic_render(u, rfunc=title, sort=f), lambda v: -v.i),
        ("render_to_plantuml_src(user_render_func)", lambda f: plantuml.render_to_plantuml_src(u, opts(f)), lambda v, o: "object %s\n" % title(v)),
        ("make_pyvis_net(rvfunc)", lambda f: pv(pyvis.make_pyvis_net(u, rvfunc=f)), title),
        ("make_pyvis_net(refunc)", lambda f: pv(pyvis.make_pyvis_net(u, rvfunc=title, refunc=f)), lambda e: "e%d" % li[id(e)]),
        ("pyvis_render_customizable(rvfunc)", lambda f: pv(pyvis.pyvis_render_customizable(u, rvfunc=f)), title),
        ("pyvis_render_customizable(refunc)", lambda f: pv(pyvis.pyvis_render_customizable(u, rvfunc=title, refunc=f)), lambda e: "e"),
        # RE-ENTRANT callbacks: the callback itself performs a read-only library call (on an overlapping universe)
        ("make_pyvis_net(rvfunc re-entrant)", lambda f: pv(pyvis.make_pyvis_net(u, rvfunc=f)),
         lambda v: (len(pyvis.make_pyvis_net(sub, rvfunc=title).nodes), title(v))[1]),
        ("make_pyvis_net(refunc re-entrant)", lambda f: pv(pyvis.make_pyvis_net(u, rvfunc=title, refunc=f)),
         lambda e: (len(pyvis.make_pyvis_net(sub).edges), "e%d" % li[id(e)])[1]),
        ("basic_render(rfunc re-entrant)", lambda f: plaintext.basic_render(u, rfunc=f),
         lambda v: (plaintext.basic_render(sub, rfunc=title), title(v))[1]),
        ("render_to_plantuml_src(user_render_func re-entrant)", lambda f: plantuml.render_to_plantuml_src(u, opts(f)),
         lambda v, o: (plantuml.render_to_plantuml_src(sub, opts()), "object %s\n" % title(v))[1]),
        ("neighbors(filterfunc re-entrant)", lambda f: [ix(h.neighbors(v, 1, 1, f)) for v in vs],
         lambda e, v: (h.neighbors(v, 1, 1) if v is not None else None, True)[1]),
        ("bft(ff_via re-entrant)", lambda f: ix(B.bft(u, start, ff_via=f, **kw)),
         lambda e, v: (B.bft(sub, sub.vertices[0], **kw), True)[1]),
        # no callback: clean run only
        ("render_to_plantuml_src", lambda f: plantuml.render_to_plantuml_src(u, opts()), None),
        ("make_pyvis_net()", lambda f: len(pyvis.make_pyvis_net(u).nodes), None),
        ("basic_render()", lambda f: plaintext.basic_render(u, rfunc=title), None),
        # a sort key that never raises but whose values cannot be ordered against each other (ints and strs): the call
        # fails inside the library's own sorting - it ends abnormally without any callback having raised
        ("basic_render(sort: unorderable keys)", lambda f: plaintext.basic_render(u, rfunc=title, sort=lambda v: (v.i if v.i % 2 else "s%d" % v.i)), None),
        ("nrpickler.dumps", lambda f: len(nrpickler.dumps(u)) > 0, None),
        ("bfs", lambda f: [vi.get(id(B.bfs(u, start, "i", k))) for k in (0, 3, 99)], None),
        ("dfs_recursive", lambda f: [vi.get(id(D.dfs_recursive(u, start, "i", k))) for k in (0, 3, 99)], None),
        ("dfs_iterative", lambda f: [vi.get(id(D.dfs_iterative(u, start, "i", k))) for k in (0, 3, 99)], None),
        ("bft", lambda f: ix(B.bft(u, start, **kw)), None),
        ("dft_recursive", lambda f: ix(D.dft_recursive(u, start, **kw)), None),
        ("dft_iterative", lambda f: ix(D.dft_iterative(u, start, **kw)), None),
    ]
    return E


_STUCK = object()
_STUCK_AFTER_S = 45


def _in_other_thread(fn):
    import threading

    box = []
    t = threading.Thread(target=lambda: box.append(fn()), daemon=True)
    t.start()
    t.join(_STUCK_AFTER_S)
    return box[0] if box else _STUCK


def outcome(call, f):
    try:
        return ("ok", call(f))
    except (Boom, BoomBase):
        return ("boom", None)
    except RecursionError:
        return ("exc", "RecursionError")
    except Exception as e:  # noqa - e.g. NotImplementedError for unknown-class links under defaults
        return ("exc", type(e).__name__)


def check_case(case):
    from edgegraph.structure import Universe, Vertex

    Vertex.NEIGHBOR_CACHING = bool(case["cache"])
    nt_points = 0
    classes = set()
    try:
        vs, ls = graphs.build(case["g"])
        for k, v in enumerate(vs):
            if k % 2:
                v.extra = ["payload", k]
        fillers = [Vertex(attributes={"i": 20000 + k}) for k in range(case.get("fill") or 0)]
        u = Universe(vertices=fillers + [vs[m] for m in case["uni"]])
        start = vs[case["uni"][0]]
        if fillers:
            classes.add("universe-with-%d-filler-members" % len(fillers))
        real = [m for m in u.vertices if all(m is not f for f in fillers)]      # the re-entrant callbacks' universe stays small
        sub = Universe(vertices=real[: max(1, (len(real) + 1) // 2)] + [v for v in vs if all(v is not m for m in u.vertices)][:1])
        if case.get("degen") and ls:
            # a link that has LOST an end (public Link.unlink_from) but is still attached at the other one
            l = ls[case["degen"][0] % len(ls)]
            if len(l.vertices) == 2 and l.vertices[0] is not l.vertices[1]:
                l.unlink_from(l.vertices[case["degen"][1]])
                classes.add("link-that-lost-an-end")
        objs = vs + ls + [u, u.laws, sub, sub.laws] + fillers
        before = deep_snapshot(objs)
        for name, call, good in entries(vs, ls, u, start, sub):
            cnt = [0]

            def counting(*a, _good=good):
                cnt[0] += 1
                return _good(*a)

            clean = outcome(call, counting if good is not None else None)
            now = deep_snapshot(objs)
            if now != before:
                raise Violation(f"read-changed-graph:{name}", f"clean run of {name} (caching={case['cache']}): {_diff(before, now)}")
            if good is None:
                continue
            N = cnt[0]
            # every fault point; for callbacks invoked very often (big universes) the first, the middle and the last
            for k in (range(1, N + 1) if N <= 40 else sorted({1, N // 2, N})):
                c = [0]
                armed = [True]

                def faulty(*a, _good=good, _k=k, _c=c, _armed=armed):
                    # a transient fault: raises at its k-th invocation while armed, well-behaved afterwards
                    _c[0] += 1
                    if _armed[0] and _c[0] == _k:
                        raise (BoomBase() if _k % 2 == 0 else Boom())
                    return _good(*a)

                res = outcome(call, faulty)
                now = deep_snapshot(objs)
                if now != before:
                    raise Violation(
                        f"fault-changed-graph:{name}",
                        f"{name} with the callback raising at invocation {k} of {N} (caching={case['cache']}, call ended as {res[0]}): {_diff(before, now)}",
                    )
                # repeat with the very same callable object, now well-behaved (a cache keyed by the callable
                # must not have kept a partial answer), and then with the original callback
                armed[0] = False
                same = outcome(call, faulty)
                if same != clean:
                    raise Violation(f"answer-differs-after-fault:{name}", f"{name}: after a transient fault at invocation {k}/{N} the same (now well-behaved) callable gives {str(same)[:200]}, the clean run gave {str(clean)[:200]} (caching={case['cache']})")
                if k == N:
                    # the well-behaved repeat issued from ANOTHER thread (the faulted call must not have left a
                    # lock or similar resource held by this one); this thread only waits
                    again = _in_other_thread(lambda: outcome(call, good))
                    if again is _STUCK:
                        raise Violation(f"repeat-never-returns-after-fault:{name}", f"{name}: after a fault at invocation {k}/{N} (caching={case['cache']}) the well-behaved call, issued from another thread, did not return within {_STUCK_AFTER_S} s (it takes microseconds)")
                    classes.add("repeat-from-another-thread")
                else:
                    again = outcome(call, good)
                if again != clean:
                    raise Violation(f"answer-differs-after-fault:{name}", f"{name}: after a fault at invocation {k}/{N} the well-behaved call gives {str(again)[:200]}, the clean run gave {str(clean)[:200]}")
                now = deep_snapshot(objs)
                if now != before:
                    raise Violation(f"read-changed-graph:{name}", f"repeat of {name} after fault {k}/{N}: {_diff(before, now)}")
                if N >= 2 and k >= 2:
                    nt_points += 1
            if N >= 2:
                classes.add(f"faulted:{name}")
            if clean[0] == "exc":
                classes.add(f"clean-run-raises:{clean[1]}")
    finally:
        Vertex.NEIGHBOR_CACHING = False
    classes.add("caching-on" if case["cache"] else "caching-off")
    return dict(nt=False, nt_points=nt_points, classes=sorted(classes))


def _diff(a, b):
    for i, (x, y) in enumerate(zip(a, b)):
        if x != y:
            kx, ky = dict(x), dict(y)
            added = sorted(set(ky) - set(kx))
            removed = sorted(set(kx) - set(ky))
            changed = sorted(k for k in kx if k in ky and kx[k] != ky[k])
            return f"object #{i}: attributes added {added}, removed {removed}, changed {[(k, kx[k], ky[k]) for k in changed][:3]}"
    return "?"
