"""
C18 — true singletons: at most one live instance per class between clears.

Case: {"ops": [[op, ci, ai], ...]}   classes: 0 P, 1 Q(P) (subclass), 2 R, 3 T (keyword-only ctor), 4 N, 5 Y, 6 Z; ci >= 10: M (derived metaclass)
  op "new": construct class ci with argument selection ai; "clear": clear class ci (ci == 4: clear all; ci == 5: clear(None))
"""
import abc
import itertools

from hypothesis import strategies as st

from eglib.driver import Violation, require, sharded

ID = "C18"
LEVEL = "exploration"
DESIGN_REF = "DESIGN.md §3 C18"
RULE = (
    "Histories of constructions (arbitrary positional / keyword arguments) and clear_true_singleton(cls) / "
    "clear_true_singleton() calls over a fresh family per case: P, Q(P) (subclass of a singleton class), R (instances falsy via __len__), T (keyword-only, falsy via __bool__) N (its __init__ constructs R: nested construction) Y (its __init__ refuses some arguments, and for others issues a global clear from inside __init__), Z (closed signature) and M (its metaclass is DERIVED from TrueSingleton, the singleton-plus-ABCMeta recipe); the harness keeps no reference to instances between calls.  "
    "Bounded-exhaustive for all histories up to the stated length over {P,Q(P),R(falsy)} x 2 argument selections + targeted "
    "and global clears, Hypothesis up to 60 operations, among them 'spam' (130 constructions of one class in a row) class F with a dispatching __new__ (its instance is of the implementation subclass F2), 'twin' (another singleton class with the same module and qualified name as P is defined and used meanwhile: nothing may change for the existing classes) and 'crowd' (140 further singleton classes live at once, 110 of them cleared one by one and each required to construct afresh).  Oracle = dict model: construct => the model's instance if "
    "one is live (identity, __init__ not re-run, stored args are the first call's) else a new object of exactly that "
    "class, distinct from every other live instance, __init__ ran exactly once with these arguments; targeted clear "
    "leaves every other class's instance in place; global clear empties all; clears (also of a class without an "
    "instance) never raise.  Non-trivial = a clear between two constructions of one class and >= 2 classes live at "
    "some point; distinct = distinct case value."
)
ASSUMPTIONS = [
    "the library's global singleton registry is reset at the start and end of every case",
    "the harness retains no reference to an instance between calls (identity is tracked by a serial number set in __init__), so an implementation that lets unreferenced singletons disappear is seen",
    "singleton classes may have falsy instances (__len__ == 0 / __bool__ False)",
]
LEVEL_TEXT = "Model-based exploration with a bounded-exhaustive core (every history of <= 5 / <= 6 operations over 3 classes) plus Hypothesis histories."
LEVEL_NOTE = "Trusts the dict model. Search, not proof."
TECHNIQUE = "model-based stateful PBT (exhaustive small-scope + Hypothesis op-lists) against a dict model"

ARGSETS = [((), {}), ((1,), {}), ((1, "x"), {"k": 2}), ((), {"k": None}), (([1],), {})]


def budget(tier):
    if tier == "quick":
        return dict(shards=16, examples=2000, time_s=50)
    return dict(shards=16, examples=50000, time_s=850)


def strategy(tier):
    # spam: 130 constructions of one class in a row; crowd: 140 further singleton classes live at once, most of them cleared one by one
    op = st.tuples(st.sampled_from(["new", "new", "new", "clear"] * 6 + ["spam", "crowd", "twin", "twin"]), st.integers(0, 11), st.integers(0, len(ARGSETS) - 1))
    return st.builds(lambda ops: {"ops": [list(o) for o in ops]}, st.lists(op, max_size=60))


def enumerate_cases(tier, shard=0, nshards=1):
    depth = 5 if tier == "quick" else 6
    alpha = [("new", c, a) for c in (0, 1, 2) for a in (0, 1)] + [("clear", c, 0) for c in (0, 1, 2, 4)]

    def gen():
        for k in range(1, depth + 1):
            for seq in sharded(itertools.product(alpha, repeat=k), shard, nshards):
                yield {"ops": [list(o) for o in seq]}

    n = sum(len(alpha) ** k for k in range(1, depth + 1))
    return gen(), f"all {n} histories of 1..{depth} operations (construct P/Q(P)/R with 2 argument selections; clear P/Q/R/all)"


def _define_twin(S):
    def init(self, *a, **k):
        self.args = (a, k)

    # created with exactly the module and qualified name the class statement `class P` inside check_case produces
    return S.TrueSingleton("P", (), {"__init__": init, "__module__": __name__, "__qualname__": "check_case.<locals>.P"})


def _crowd(S, where):
    """140 further singleton classes get an instance each; 110 of them are then cleared ONE BY ONE and must construct
    afresh; the rest still hand out their instance; finally all 140 are cleared again (targeted)."""
    count = [0]

    def mk(n):
        class X(metaclass=S.TrueSingleton):
            def __init__(self, *a):
                count[0] += 1
                self.serial = count[0]
        X.__name__ = "X%d" % n
        return X

    crowd = [mk(n) for n in range(140)]
    serial = {}
    for X in crowd:
        o = X()
        serial[X] = o.serial
        del o
    try:
        for X in crowd[:110]:
            S.clear_true_singleton(X)
        for n, X in enumerate(crowd):
            c0 = count[0]
            o = X(n)
            ser = o.serial
            del o
            if n < 110:
                require(count[0] == c0 + 1 and ser != serial[X], "clear-had-no-effect", f"{where}: crowd class #{n} was cleared (targeted clear #{n + 1} of 110 among 140 live classes) yet hands out its old instance")
            else:
                require(count[0] == c0 and ser == serial[X], "other-class-instance-lost", f"{where}: crowd class #{n} was not cleared yet was re-created")
    finally:
        for X in crowd:
            S.clear_true_singleton(X)


def check_case(case):
    """
    The harness keeps NO strong reference to any instance between calls (a caller that uses a singleton on the
    spot and asks for it again later must get the same object): instances carry a serial number given by
    __init__, the model remembers serials.
    """
    from edgegraph.structure import singleton as S

    S.clear_true_singleton()
    ninit = [0]

    class P(metaclass=S.TrueSingleton):
        def __init__(self, *a, **k):
            ninit[0] += 1
            self.serial = ninit[0]
            self.args = (a, k)

    class Q(P):
        pass

    class R(metaclass=S.TrueSingleton):
        def __init__(self, *a, **k):
            ninit[0] += 1
            self.serial = ninit[0]
            self.args = (a, k)

        def __len__(self):      # instances are falsy (an "empty registry" style class)
            return 0

    class T(metaclass=S.TrueSingleton):
        def __init__(self, *a, k=0):
            ninit[0] += 1
            self.serial = ninit[0]
            self.args = (a, {"k": k} if k != 0 else {})

        def __bool__(self):
            return False

    class N(metaclass=S.TrueSingleton):
        """A singleton whose __init__ itself constructs another singleton class (nested construction)."""

        def __init__(self, *a, **k):
            ninit[0] += 1
            self.serial = ninit[0]
            self.args = (a, k)
            inner = R()
            self.inner_serial = inner.serial
            del inner

    class Y(metaclass=S.TrueSingleton):
        """__init__ refuses some arguments (a failed construction must leave the class constructible), and for
        one argument it issues a GLOBAL clear from inside __init__ (re-entrancy)."""

        def __init__(self, *a, **k):
            if a and a[0] == 1 and not k:
                raise ValueError("refused")
            ninit[0] += 1
            self.serial = ninit[0]
            self.args = (a, k)
            if k.get("k", 0) == 2:
                S.clear_true_singleton()

    class Z(metaclass=S.TrueSingleton):
        """A closed signature: while an instance lives, ANY arguments must still return it."""

        def __init__(self, path="p"):
            ninit[0] += 1
            self.serial = ninit[0]
            self.args = ((path,) if path != "p" else (), {})

    class DerivedMeta(S.TrueSingleton, abc.ABCMeta):
        """The usual recipe for a singleton that is also an abstract base class: a metaclass DERIVED from TrueSingleton."""

    class M(metaclass=DerivedMeta):
        def __init__(self, *a, **k):
            ninit[0] += 1
            self.serial = ninit[0]
            self.args = (a, k)

    class F(metaclass=S.TrueSingleton):
        """A dispatching __new__ (the pathlib.Path idiom): F(...) yields an instance of the implementation subclass F2,
        which is an instance of F all the same."""

        def __new__(cls, *a, **k):
            return object.__new__(F2 if cls is F else cls)

        def __init__(self, *a, **k):
            ninit[0] += 1
            self.serial = ninit[0]
            self.args = (a, k)

    class F2(F):
        pass

    CL = [P, Q, R, T, N, Y, Z, M, F]
    names = "PQRTNYZMF"

    def sel(ci):
        return 8 if ci == 11 else (7 if ci >= 10 else ci % 7)

    def is_a(o, c):
        """'its instance': exactly of that class - or, for F, of the implementation subclass its __new__ chose"""
        return type(o) is c or (c is F and isinstance(o, F))
    model = {}          # class -> (serial, args)
    cleared_since = {}
    nt_a = nt_b = False
    classes = set()
    try:
        expanded = []
        for op, ci, ai in case["ops"]:
            expanded += [["new", ci, ai]] * 130 if op == "spam" else [[op, ci, ai]]
        if len(expanded) > len(case["ops"]):
            classes.add("130-constructions-in-a-row")
        for step, (op, ci, ai) in enumerate(expanded):
            where = f"step {step} {op} {ci} {ai}"
            if op == "crowd":
                _crowd(S, where)
                classes.add("140-classes-live-at-once")
                continue
            if op == "twin":
                # ANOTHER singleton class with the same module and qualified name as P is DEFINED (a class statement in a
                # factory executed again) and used on its own: a class statement names no existing class, so nothing
                # may change for P and the others; the twin is cleared again (targeted) afterwards
                Twin = _define_twin(S)
                t = Twin("twin", ci)
                require(type(t) is Twin and t.args == (("twin", ci), {}), "wrong-class-returned", f"{where}: the newly defined class returned {type(t).__name__}")
                del t
                S.clear_true_singleton(Twin)
                del Twin
                classes.add("same-named-class-defined-meanwhile")
                for c, (serial, args) in model.items():
                    n0 = ninit[0]
                    o = c()
                    ok = getattr(o, "serial", None) == serial and ninit[0] == n0 and is_a(o, c)
                    del o
                    require(ok, "other-class-instance-lost", f"{where}: defining (and using) another class called P replaced or re-initialised the live instance of {c.__name__}")
                continue
            if op == "new":
                c = CL[sel(ci)]
                a, k = ARGSETS[ai]
                if c is T:
                    k = {kk: vv for kk, vv in k.items() if kk == "k"}
                n0 = ninit[0]
                nested_new = (c is N and c not in model and R not in model)
                refused = c is Y and c not in model and a and a[0] == 1 and not k
                if c is Z and c not in model and (len(a) > 1 or k):
                    # the arguments do not fit Z's signature: TypeError is what Python does, nothing registered
                    try:
                        c(*a, **k)
                    except TypeError:
                        classes.add("signature-mismatch-on-first-construction")
                        continue
                    raise Violation("construct-returned-despite-signature-mismatch", where)
                clears_all = c is Y and c not in model and not refused and k.get("k", 0) == 2
                try:
                    o = c(*a, **k)
                except ValueError as e:
                    if refused:
                        classes.add("construction-refused-by-__init__")
                        continue        # nothing may have been registered: the next construction starts afresh
                    raise Violation("construct-raised", f"{where}: {e!r}")
                except Exception as e:  # noqa
                    raise Violation("construct-raised", f"{where}: {e!r}")
                if refused:
                    raise Violation("refused-construction-returned-object", where)
                if clears_all:
                    # the global clear ran inside __init__, i.e. BEFORE this construction completed: every other
                    # class starts afresh; the instance under construction is the live one from now on
                    for cc in list(model):
                        cleared_since[cc] = True
                    model = {}
                    classes.add("clear-all-from-inside-__init__")
                if nested_new:
                    # N.__init__ constructed R (no arguments) as a side effect: R is live from now on
                    require(ninit[0] == n0 + 2, "init-count", f"{where}: nested construction ran __init__ {ninit[0] - n0} times, expected 2")
                    model[R] = (o.inner_serial, ((), {}))
                    n0 += 1
                    classes.add("nested-construction")
                elif c is N and c not in model:
                    require(o.inner_serial == model[R][0], "second-instance-created", f"{where}: N.__init__ got another R (serial {o.inner_serial}) than the live one ({model[R][0]})")
                    classes.add("nested-construction-hit")
                if c in model:
                    require(getattr(o, "serial", None) == model[c][0] and is_a(o, c), "second-instance-created",
                            f"{where}: {names[sel(ci)]} already has a live instance (serial {model[c][0]}), got serial {getattr(o, 'serial', None)} of class {type(o).__name__}")
                    require(ninit[0] == n0, "init-ran-again", where)
                    require(o.args == model[c][1], "stored-args-changed", f"{where}: args now {o.args}, first call's were {model[c][1]}")
                else:
                    require(is_a(o, c), "wrong-class-returned", f"{where}: got {type(o).__name__}")
                    require(ninit[0] == n0 + 1 and o.serial == (ninit[0] if not nested_new else ninit[0] - 1), "init-count", f"{where}: __init__ ran {ninit[0] - n0} times / an old instance (serial {getattr(o, 'serial', None)}) was returned")
                    exp_args = (tuple(a), dict(k)) if c is not T else (tuple(a), {"k": k["k"]} if k.get("k", 0) != 0 else {})
                    if c is Z:
                        exp_args = ((a[0],) if a and a[0] != "p" else (), {})
                    require(o.args == exp_args, "init-args", f"{where}: {o.args} vs {exp_args}")
                    model[c] = (o.serial, o.args)
                    if cleared_since.get(c):
                        nt_a = True
                        classes.add("construct-after-clear")
                    if not bool(o):
                        classes.add("falsy-instance")
                del o
                if len(model) >= 2:
                    nt_b = True
            else:
                try:
                    if ci in (4, 5) and op == "clear":
                        S.clear_true_singleton() if ci == 4 else S.clear_true_singleton(None)
                        for c in list(model):
                            cleared_since[c] = True
                        model = {}
                        classes.add("clear-all")
                    else:
                        c = CL[sel(ci)]
                        if c not in model:
                            classes.add("clear-class-without-instance")
                        else:
                            cleared_since[c] = True
                        S.clear_true_singleton(c)
                        model.pop(c, None)
                        classes.add("clear-one")
                except Exception as e:  # noqa
                    raise Violation("clear-raised", f"{where}: {e!r}")
            # every live class still hands out its instance (probe; nothing is retained)
            for c, (serial, args) in model.items():
                n0 = ninit[0]
                o = c()
                ok = getattr(o, "serial", None) == serial and ninit[0] == n0 and is_a(o, c)
                del o
                require(ok, "other-class-instance-lost", f"{where}: the live instance of {c.__name__} (serial {serial}) was replaced or re-initialised")
    finally:
        S.clear_true_singleton()
    return dict(nt=nt_a and nt_b, classes=sorted(classes), enum_scope=False)
