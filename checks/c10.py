"""
C10 — nrpickler round-trips any graph to an isomorphic, usable, detached copy.

Case forms
  {"t":"world", "nv":..,"nuni":..,"ops":[...],             history that builds the graph (eglib/world.py)
   "laws": [...], "shared":[spec,...], "attrs":[[holder, name, spec],...],
   "warm": bool, "root": 0..4, "proto": 0..5, "loader": "pickle"|"dill",
   "via_file": bool, "flag_dump": bool, "flag_load": bool}
  {"t":"big", "shape": "chain"|"ring"|"grid"|"star"|"clique", "n": int, "proto": .., "extra": int,
   "edgecls": 0..5, "flag": bool}
Value specs (plain data): ["int",n] ["big",k] ["float",s] ["str",s] ["bytes",hex] ["bool",b] ["none"]
  ["list",[..]] ["dict",[[k,v],..]] ["tuple",[..]] ["set",[scalars]] ["fset",[scalars]]
  ["ref",i] (i-th graph object: vertices, then links) ["shared",k] (k-th shared container)
  ["odict",[[i,scalar],..]] dict keyed by graph objects  ["oset",[i,..]] set of graph objects
  ["huge",kind,n,ch] str/bytes/bytearray payload around / above 64 KiB
"""
from eglib import h
import io
import pickle
import sys

from hypothesis import strategies as st

from eglib import battery, canon
from eglib.driver import Violation, open_keys, require
from eglib.world import World

ID = "C10"
LEVEL = "exploration"
DESIGN_REF = "DESIGN.md §3 C10"
KF1 = "pickle-self-reachable-tuple"
RULE = (
    "Worlds built by generated histories (cycles, self-loops, parallel links, None ends, 0-3 universes incl. nested "
    "and self-member, importable Vertex/edge subclasses incl. falsy ones, a multiply-inheriting one, one that hashes by uid and (protocol >= 2) one keeping an attribute in a __slots__ slot, law sets with whitelists), with runtime attributes on "
    "vertices, links and universes drawn from scalars (ints incl. > 2^63, floats incl. nan/inf/-0.0, str, bytes, "
    "bool, None, str/bytes/bytearray payloads above 64 KiB), lists/dicts/tuples/sets nested to depth 3, dicts keyed by / sets of graph objects, references to graph objects and a pool of SHARED "
    "containers attached to several holders; graphs queried before pickling (full battery: warm neighbor caches and any other memo queries may leave); root in {universe, vertex, link, list of "
    "everything, dict}; protocols 0..5; dumps vs dump(file) into a BytesIO or a real buffered file; loader pickle or dill; caching flag on/off at dump and "
    "at load.  Oracle: canonical(copy) == canonical(original) (classes by qualified name, uids, attribute names "
    "and values, ordered links/ends/members, sharing), no object identity in common, mutating the copy leaves the "
    "original's canonical form unchanged, the query battery on the copy equals the one on the original (flag on), "
    "the copy accepts a new edge, and the same few structural mutations applied to the original and to the copy keep them isomorphic; dumps never raises.  Size/depth family: chains, rings, grids, stars, cliques of "
    "120-3000 vertices serialised with the recursion limit lowered to current depth + 120..250 (graph far deeper "
    "than the limit).  Extra phase: blobs + expected forms are handed to a fresh interpreter (flag on and off, "
    "pickle and dill).  Attribute values include compiled regular expressions, complex numbers, dates, Decimals, Fractions and ranges.  A quarter of the world cases also dump, with default arguments, a graph over a FUNCTION-LOCAL vertex class right after an unrelated dumps() call that spelled dill's byref / recurse / fmode options out (every call stands alone).  In the size family caches are optionally warmed with filter objects that themselves hold a vertex (functools.partial, bound method).  Worlds may contain generic n-ended Link objects (_force_creation=True).  Non-trivial = the reachable graph has a cycle through >= 2 object kinds and (a shared "
    "container or >= 2 universes); big cases are non-trivial when n >= 10 x the recursion headroom/ 4; distinct = "
    "distinct case value."
)
ASSUMPTIONS = [
    "classes used by cases are importable (eglib.classes), as pickle requires",
    "while known finding " + KF1 + " is open, tuples/frozensets that hold object references are generated single-referenced only (excluded cases are counted)",
    "sets hold scalars or graph objects; object-bearing sets are canonicalised by the members' uids (iteration order is not part of the contract)",
    "the size axis is capped near 3*10^3 vertices by the pickler's quadratic cost; depth is scaled by lowering the recursion limit instead",
]
LEVEL_TEXT = (
    "Round-trip exploration: ~2*10^4 (quick) / 5*10^5 (thorough) generated worlds x configurations compared by an "
    "order- and sharing-preserving canonical form, a size/depth family under a lowered recursion limit, and "
    "fresh-interpreter batches.  A round-trip oracle is exact for this property; coverage of 'any graph' is by sampling."
)
LEVEL_NOTE = "Trusts eglib/canon.py (iterative canonical numbering) and the query battery. Search, not proof; size axis bounded as stated."
TECHNIQUE = "round-trip PBT (Hypothesis worlds x configurations) with canonical-form, detachment and query-battery oracles; fresh-interpreter differential; lowered-recursion-limit size family"

OPS_W = ["edge"] * 7 + ["v1", "v2"] * 2 + ["link"] * 2 + ["unlink"] + ["ua", "va"] * 2 + ["ur"] + ["newv_u", "newu"] + ["av", "uf"] + ["glink"]


def budget(tier):
    if tier == "quick":
        return dict(shards=16, examples=1000, time_s=55)
    return dict(shards=16, examples=20000, time_s=850)


# ----------------------------------------------------------------------------- strategies
_scalars = st.one_of(
    st.builds(lambda n: ["int", n], st.integers(-5, 300)),
    st.builds(lambda k: ["big", k], st.integers(-3, 3)),
    st.builds(lambda s: ["float", s], st.sampled_from(["nan", "inf", "-inf", "-0.0", "0.5", "1e300", "3.0"])),
    st.builds(lambda s: ["str", s], st.text(max_size=4)),
    st.builds(lambda b: ["bytes", b.hex()], st.binary(max_size=4)),
    st.builds(lambda b: ["bool", b], st.booleans()),
    st.just(["none"]),
    st.builds(lambda k: ["stdlib", k], st.integers(0, 5)),
)
_leaves = st.one_of(
    _scalars,
    st.builds(lambda i: ["ref", i], st.integers(0, 15)),
    st.builds(lambda k: ["shared", k], st.integers(0, 3)),
    # containers HASHED by graph objects (dict keys / set elements), and payloads above pickle's 64 KiB framing threshold
    st.builds(lambda kv: ["odict", [[k, v] for k, v in kv]], st.lists(st.tuples(st.integers(0, 15), _scalars), min_size=1, max_size=3)),
    st.builds(lambda xs: ["oset", xs], st.lists(st.integers(0, 15), min_size=1, max_size=3)),
    st.builds(lambda kind, n, ch: ["huge", kind, n, ch], st.sampled_from(["str", "bytes", "bytearray"]), st.integers(0, 70000), st.integers(0, 255)),
)
_values = st.recursive(
    _leaves,
    lambda ch: st.one_of(
        st.builds(lambda xs: ["list", xs], st.lists(ch, max_size=3)),
        st.builds(lambda xs: ["tuple", xs], st.lists(ch, max_size=3)),
        st.builds(lambda kv: ["dict", [[k, v] for k, v in kv]], st.lists(st.tuples(_scalars, ch), max_size=3)),
        st.builds(lambda xs: ["set", xs], st.lists(_scalars, max_size=3)),
        st.builds(lambda xs: ["fset", xs], st.lists(_scalars, max_size=3)),
    ),
    max_leaves=6,
)
_shared = st.one_of(
    st.builds(lambda xs: ["list", xs], st.lists(_leaves, max_size=3)),
    st.builds(lambda kv: ["dict", [[k, v] for k, v in kv]], st.lists(st.tuples(_scalars, _leaves), max_size=3)),
    st.builds(lambda xs: ["tuple", xs], st.lists(_leaves, min_size=1, max_size=3)),
    st.builds(lambda xs: ["set", xs], st.lists(_scalars, max_size=3)),
)


def strategy(tier):
    maxlen = 20 if tier == "quick" else 40
    op = st.tuples(st.sampled_from(OPS_W), st.integers(0, 11), st.integers(0, 11), st.integers(0, 47))
    world = st.builds(
        lambda nv, nuni, ops, laws, shared, attrs, warm, root, proto, loader, via_file, fd, fl, muts: {
            "t": "world", "vcls": [(len(attrs) + proto) % 6, (nv + root) % 6, 5 * (proto % 2)] + ([99] if proto >= 2 and (nv + len(attrs)) % 3 == 0 else []), "nv": nv, "nuni": min(nuni, nv - 1), "ops": [list(o) for o in ops], "laws": laws,
            "shared": shared, "attrs": [list(a) for a in attrs], "warm": warm, "root": root, "proto": proto,
            "loader": loader, "via_file": via_file, "flag_dump": fd, "flag_load": fl, "muts": [list(m) for m in muts],
        },
        st.integers(1, 6), st.integers(0, 3), st.lists(op, max_size=maxlen),
        st.lists(st.integers(0, 3), max_size=2),
        st.lists(_shared, max_size=3),
        st.lists(st.tuples(st.integers(0, 15), st.sampled_from(["a", "b", "c", "data"]),
                           st.one_of(_values, _values, st.builds(lambda k: ["shared", k], st.integers(0, 3)))), max_size=8),
        st.booleans(), st.integers(0, 4), st.integers(0, 5), st.sampled_from(["pickle", "dill"]),
        st.booleans(), st.booleans(), st.booleans(),
        st.lists(st.tuples(st.sampled_from(["unlink", "unlink", "v1", "v2", "rl", "uf", "al", "av"]), st.integers(0, 11), st.integers(0, 11), st.integers(0, 47)), max_size=3),
    )
    nmax = 500 if tier == "quick" else 3000
    big = st.builds(
        lambda shape, n, proto, extra, ec, flag: {"t": "big", "shape": shape, "n": n, "proto": proto, "extra": extra, "edgecls": ec, "flag": flag},
        st.sampled_from(["chain", "ring", "grid", "star", "clique", "chain", "uchain"]),
        st.integers(120, nmax), st.integers(0, 5), st.integers(120, 250), st.integers(0, 5), st.booleans(),
    )
    ratio = 40 if tier == "quick" else 60
    return st.integers(0, ratio).flatmap(lambda k: big if k == 0 else world)


# ----------------------------------------------------------------------------- materialisation
class Builder:
    def __init__(self, case, kf_open):
        self.case = case
        self.kf_open = kf_open
        self.excluded = 0
        self.has_shared_use = 0
        self.multi_tuple = False
        self.huge = False

    def build(self):
        from edgegraph.structure import DirectedEdge, Universe, Vertex
        from edgegraph.structure.universe import UniverseLaws

        case = self.case
        w = World(case["nv"], case.get("nuni", 0), case.get("vcls"))
        for op in case["ops"]:
            r = w.resolve(op)
            if r is None:
                continue
            try:
                w.execute(r)
            except Exception:  # noqa - degenerate links may reject calls; the world is whatever results
                pass
        self.w = w
        # law sets with whitelists on some universes
        for k, sel in enumerate(case.get("laws", [])):
            if k < len(w.uidx):
                wl = [None, {}, {Vertex: {Vertex: DirectedEdge}}, {Vertex: {Vertex: DirectedEdge, Universe: DirectedEdge}, Universe: {}}][sel]
                w.vs[w.uidx[k]].laws = UniverseLaws(edge_whitelist=wl, mixed_links=bool(sel & 1), cycles=not sel & 1)
        self.objs = list(w.vs) + list(w.ls)
        # shared containers, built once
        self.shared_specs = case.get("shared", [])
        self.shared_objs = {}
        self.shared_uses = {}
        for holder, name, spec in case.get("attrs", []):
            tgt = self.objs[holder % len(self.objs)]
            try:
                setattr(tgt, "x_" + name, self.value(spec, 0))
            except TypeError:
                # unhashable element in a set/dict-key position: skip this attribute
                continue
        return w

    def hashable_obj(self, k):
        """
        A graph object to be used as dict key / set element.  Objects whose __hash__ needs their state
        (UidHashVertex) are not used there: inside a reference cycle no pickler can hash them before their state
        is restored (a limitation of pickle itself, not of nrpickler).
        """
        from eglib import classes as C

        n = len(self.objs)
        for d in range(n):
            o = self.objs[(k + d) % n]
            if not isinstance(o, C.UidHashVertex):
                return o
        return k

    def _has_ref(self, spec):
        if spec[0] in ("ref", "odict", "oset"):
            return True
        if spec[0] in ("list", "tuple"):
            return any(self._has_ref(s) for s in spec[1])
        if spec[0] == "dict":
            return any(self._has_ref(v) for _, v in spec[1])
        return False

    def value(self, spec, depth, in_shared=False):
        t = spec[0]
        if t == "int":
            return spec[1]
        if t == "big":
            return 2 ** 70 + spec[1]
        if t == "float":
            return float(spec[1])
        if t == "str":
            return spec[1]
        if t == "bytes":
            return bytes.fromhex(spec[1])
        if t == "bool":
            return bool(spec[1])
        if t == "none":
            return None
        if t == "stdlib":
            # values whose picklability comes from the standard library's copyreg registrations / reduce protocol
            import datetime
            import decimal
            import fractions
            import re

            return [re.compile("a+b?"), complex(1.5, -2), datetime.date(2024, 2, 29), decimal.Decimal("1.10"), fractions.Fraction(3, 7), range(2, 9, 3)][spec[1] % 6]
        if t == "ref":
            return self.objs[spec[1] % len(self.objs)]
        if t == "shared":
            if not self.shared_specs or in_shared:
                return None
            k = spec[1] % len(self.shared_specs)
            sspec = self.shared_specs[k]
            if sspec[0] == "tuple" and self._has_ref(sspec) and self.kf_open:
                # known finding KF1: a reference-bearing tuple referenced from several places can be
                # "reachable from its own element"; generate it unshared while the finding is open
                self.shared_uses[k] = self.shared_uses.get(k, 0) + 1
                if self.shared_uses[k] > 1:
                    self.excluded += 1
                return self.value(sspec, depth + 1, in_shared=True)
            if k not in self.shared_objs:
                self.shared_objs[k] = self.value(sspec, depth + 1, in_shared=True)
            else:
                self.has_shared_use += 1
                if sspec[0] == "tuple" and self._has_ref(sspec):
                    self.multi_tuple = True
            return self.shared_objs[k]
        if t == "odict":
            return {self.hashable_obj(k): self.value(v, depth + 1, in_shared) for k, v in spec[1]}
        if t == "oset":
            return {self.hashable_obj(k) for k in spec[1]}
        if t == "huge":
            n = 65536 + spec[2] if spec[2] % 3 else spec[2]   # two thirds at or above 64 KiB
            self.huge = True
            if spec[1] == "str":
                return chr(65 + spec[3] % 26) * n
            if spec[1] == "bytes":
                return bytes([spec[3]]) * n
            return bytearray([spec[3]]) * n
        if t == "list":
            return [self.value(s, depth + 1, in_shared) for s in spec[1]]
        if t == "tuple":
            return tuple(self.value(s, depth + 1, in_shared) for s in spec[1])
        if t == "dict":
            return {self.value(k, depth + 1, in_shared): self.value(v, depth + 1, in_shared) for k, v in spec[1]}
        if t == "set":
            return {self.value(s, depth + 1, in_shared) for s in spec[1]}
        if t == "fset":
            return frozenset(self.value(s, depth + 1, in_shared) for s in spec[1])
        raise ValueError(spec)


def pick_root(w, sel):
    from edgegraph.structure import Universe

    unis = [w.vs[u] for u in w.uidx]
    if sel == 0 and unis:
        return unis[0]
    if sel == 1 or (sel == 0 and not unis):
        return w.vs[0]
    if sel == 2 and w.ls:
        return w.ls[0]
    if sel == 3:
        return {"vs": w.vs, "ls": w.ls, "n": len(w.vs)}
    return [w.vs, w.ls]


def dump_bytes(root, proto, via_file):
    from edgegraph.output import nrpickler

    if via_file and proto % 2:
        # dump() into a real (buffered) file on disk, read back after closing
        import os
        import tempfile

        fd, path = tempfile.mkstemp(prefix="eg_c10_", suffix=".pickle")
        try:
            with os.fdopen(fd, "wb") as f:
                nrpickler.dump(root, f, protocol=proto)
            with open(path, "rb") as f:
                return f.read()
        finally:
            os.unlink(path)
    if via_file:
        f = io.BytesIO()
        nrpickler.dump(root, f, protocol=proto)
        return f.getvalue()
    return nrpickler.dumps(root, protocol=proto)


def positions(order, pool):
    pos = {id(o): i for i, o in enumerate(order)}
    return [pos[id(x)] for x in pool if id(x) in pos]


def prepare(case, kf_open):
    """Build the world, warm caches, serialise.  -> dict with everything the oracles need."""
    from edgegraph.structure import Vertex

    b = Builder(case, kf_open)
    w = b.build()
    root = pick_root(w, case["root"])
    Vertex.NEIGHBOR_CACHING = bool(case["flag_dump"])
    try:
        form, order = canon.canonical(root)
        if case["warm"]:
            # the graph has been QUERIED before it is pickled (neighbors, find_links, traversals and searches with
            # and without universes): any memo those queries leave on the objects travels with the pickle.
            # Same pool (hence the same filter truth tables) as the oracles use later.
            battery.evaluate([order[p] for p in positions(order, w.vs)], [order[p] for p in positions(order, w.ls)],
                             [order[p] for p in positions(order, [w.vs[u] for u in w.uidx])][:2], level=2, unhashable=False)
        try:
            blob = dump_bytes(root, case["proto"], case["via_file"])
        except RecursionError as e:
            raise Violation("dumps-raised:RecursionError", repr(e))
        except AssertionError as e:
            if b.multi_tuple:
                raise Violation(KF1, "AssertionError inside dumps with a multiply-referenced reference-bearing tuple")
            raise Violation("dumps-raised:AssertionError", repr(e))
        except Exception as e:  # noqa
            raise Violation("dumps-raised:" + type(e).__name__, repr(e))
    finally:
        Vertex.NEIGHBOR_CACHING = False
    return dict(b=b, w=w, root=root, form=form, order=order, blob=blob)


def check_world(case):
    import dill

    from edgegraph.builder import explicit
    from edgegraph.structure import Vertex
    from edgegraph.structure.base import BaseObject

    kf_open = KF1 in open_keys(ID)
    P = prepare(case, kf_open)
    b, w, root, form, order, blob = P["b"], P["w"], P["root"], P["form"], P["order"], P["blob"]
    Vertex.NEIGHBOR_CACHING = bool(case["flag_load"])
    try:
        try:
            copy = (dill if case["loader"] == "dill" else pickle).loads(blob)
        except Exception as e:  # noqa
            raise Violation("loads-raised:" + type(e).__name__, repr(e))
        form2, order2 = canon.canonical(copy)
        diff = canon.first_form_difference(form, form2)
        if diff:
            raise Violation("copy-not-isomorphic", f"{diff} (proto={case['proto']} loader={case['loader']} root={case['root']})")
        for o, c in zip(order, order2):
            require(type(o) is type(c), "class-differs", f"{type(o)} vs {type(c)}")
        shared_ids = {id(o) for o in order} & {id(c) for c in order2}
        require(not shared_ids, "copy-not-detached", f"{len(shared_ids)} objects are shared between the original and the copy")
        # battery: same answers on both sides, caching on
        vs_pos = positions(order, w.vs)
        ls_pos = positions(order, w.ls)
        un_pos = positions(order, [w.vs[u] for u in w.uidx])
        Vertex.NEIGHBOR_CACHING = True
        b_orig = battery.evaluate([order[p] for p in vs_pos], [order[p] for p in ls_pos], [order[p] for p in un_pos][:2])
        b_copy = battery.evaluate([order2[p] for p in vs_pos], [order2[p] for p in ls_pos], [order2[p] for p in un_pos][:2])
        d = battery.first_difference(b_orig, b_copy)
        if d:
            raise Violation("copy-answers-differ", d)
        Vertex.NEIGHBOR_CACHING = bool(case["flag_load"])
        # the copy BEHAVES like the original under mutation: the same few structural operations applied to
        # both pools (unlink a pre-existing pair, re-assign ends, remove memberships) keep them isomorphic
        cvs_pre = [order2[p] for p in vs_pos]
        muts = case.get("muts") or []
        if muts:
            ovs, ols = [order[p] for p in vs_pos], [order[p] for p in ls_pos]
            cvs0, cls0 = [order2[p] for p in vs_pos], [order2[p] for p in ls_pos]
            if ovs:
                for pool_vs, pool_ls in ((ovs, ols), (cvs0, cls0)):
                    wm = World.from_pool(pool_vs, pool_ls)
                    for op in muts:
                        r = wm.resolve(op)
                        if r is None:
                            continue
                        try:
                            wm.execute(r)
                        except Exception:  # noqa - degenerate links may reject a call; both sides alike
                            pass
                fo, _ = canon.canonical(root)
                fc, _ = canon.canonical(copy)
                d = canon.first_form_difference(fo, fc)
                if d:
                    raise Violation("copy-diverges-under-mutation", f"after applying {muts} to the original and to the copy: {d}")
                form = fo
                order2 = canon.canonical(copy)[1]
        # the copy is usable and detached: mutate it, the original must not move
        cvs = cvs_pre
        if cvs:
            try:
                probe = canon.usability_probe(cvs)
            except Exception as e:  # noqa
                raise Violation("copy-not-usable", repr(e))
            require(probe == "empty" or all(probe.values()), "copy-not-usable", str(probe))
            explicit.link_undirected(cvs[0], cvs[-1])
            cvs[0].x_new_attr = [1]
            for c in order2:
                if isinstance(c, list) and not any(c is getattr(o, "_links", None) or c is getattr(o, "_vertices", None) or c is getattr(o, "_universes", None) for o in order2 if isinstance(o, BaseObject)):
                    c.append("mutated")
                    break
        form3, _ = canon.canonical(root)
        d = canon.first_form_difference(form, form3)
        if d:
            raise Violation("mutating-copy-changed-original", d)
    finally:
        Vertex.NEIGHBOR_CACHING = False
    # ---- classification
    kinds = set()
    for o in order:
        if isinstance(o, BaseObject):
            kinds.add(type(o).__mro__[-3].__name__ if len(type(o).__mro__) >= 3 else type(o).__name__)
    nvert = sum(1 for p in vs_pos)
    nlink = len(ls_pos)
    nuni = len(un_pos)
    cyc = nlink >= 1 and nvert >= 1  # a vertex and its link reference each other: a cycle through 2 object kinds
    nt = cyc and (b.has_shared_use > 0 or nuni >= 2)
    classes = [f"proto{case['proto']}", "loader-" + case["loader"], f"root{case['root']}", "warm" if case["warm"] else "cold",
               "flag_dump" if case["flag_dump"] else "noflag_dump", "flag_load" if case["flag_load"] else "noflag_load"]
    if b.has_shared_use:
        classes.append("shared-container-used-twice")
    if nuni >= 2:
        classes.append(">=2-universes")
    if b.excluded:
        classes.append("kf1-sharing-suppressed")
    if b.huge:
        classes.append("payload>=64KiB")
    if any(sp and sp[0] in ("odict", "oset") for _h, _n, sp in case.get("attrs", [])):
        classes.append("container-hashed-by-graph-objects")
    return dict(nt=nt, classes=classes, excluded=b.excluded)


def build_big(shape, n, ec):
    from edgegraph.structure import Universe
    from eglib import classes as C

    E = C.LINK_CLASSES[ec % 6]
    vs = [C.make_vertex(i) for i in range(n)]
    ls = []
    if shape in ("chain", "uchain"):
        E2 = E if shape == "chain" else C.LINK_CLASSES[1]
        ls = [E2(vs[i], vs[i + 1]) for i in range(n - 1)]
    elif shape == "ring":
        ls = [E(vs[i], vs[(i + 1) % n]) for i in range(n)]
    elif shape == "star":
        ls = [E(vs[0], vs[i]) for i in range(1, n)]
    elif shape == "grid":
        side = max(2, int(n ** 0.5))
        vs = vs[: side * side]
        for r in range(side):
            for c in range(side):
                if c + 1 < side:
                    ls.append(E(vs[r * side + c], vs[r * side + c + 1]))
                if r + 1 < side:
                    ls.append(E(vs[r * side + c], vs[(r + 1) * side + c]))
    elif shape == "clique":
        m = max(3, min(len(vs), int((2 * n) ** 0.5)))
        vs = vs[:m]
        ls = [E(vs[i], vs[j]) for i in range(m) for j in range(m) if i < j]
    uni = Universe(vertices=vs)
    return uni, vs, ls


def _depth():
    f = sys._getframe()
    d = 0
    while f is not None:
        d += 1
        f = f.f_back
    return d


def check_big(case):
    from edgegraph.output import nrpickler
    from edgegraph.structure import Vertex
    from edgegraph.traversal import breadthfirst as B
    from edgegraph.traversal import helpers

    uni, vs, ls = build_big(case["shape"], case["n"], case["edgecls"])
    Vertex.NEIGHBOR_CACHING = bool(case["flag"])
    old = sys.getrecursionlimit()
    if case["flag"] and case["extra"] % 2:
        # warm neighbor caches keyed by filter objects that themselves HOLD a vertex of this (deep / large) graph
        import functools

        from eglib import battery

        for k, flt in ((0, functools.partial(battery.f_anchor, vs[-1])), (len(vs) // 2, battery.AnchorFilter(vs[0]).accept), (len(vs) - 1, functools.partial(battery.f_anchor, vs[0]))):
            h.neighbors(vs[k], 1, 1, flt)
    form, order = canon.canonical(uni)
    try:
        limit = _depth() + case["extra"]
        sys.setrecursionlimit(limit)
        try:
            blob = nrpickler.dumps(uni, protocol=case["proto"])
        except RecursionError as e:
            raise Violation("dumps-raised:RecursionError", f"{case['shape']} n={len(vs)} with recursion headroom {case['extra']}: {e!r}")
        except Exception as e:  # noqa
            raise Violation("dumps-raised:" + type(e).__name__, repr(e))
        finally:
            sys.setrecursionlimit(old)
        copy = pickle.loads(blob)
        form2, order2 = canon.canonical(copy)
        d = canon.first_form_difference(form, form2)
        if d:
            raise Violation("copy-not-isomorphic", f"big {case['shape']} n={len(vs)}: {d}")
        require(not ({id(o) for o in order} & {id(c) for c in order2}), "copy-not-detached", "big case shares objects")
        # spot queries on the copy
        cvs = copy.vertices
        for k in (0, len(vs) // 2, len(vs) - 1):
            a = [x.i for x in h.neighbors(vs[k], 1, 1)]
            c = [x.i for x in h.neighbors(cvs[k], 1, 1)]
            require(a == c, "copy-answers-differ", f"neighbors of vertex {k}: {a} vs {c}")
        a = [x.i for x in B.bft(uni, vs[0], **h.kw(1, 1))]
        c = [x.i for x in B.bft(copy, cvs[0], **h.kw(1, 1))]
        require(a == c, "copy-answers-differ", "bft over the big copy differs")
    finally:
        sys.setrecursionlimit(old)
        Vertex.NEIGHBOR_CACHING = False
    nt = len(vs) + len(ls) >= 10 * case["extra"] / 4
    return dict(nt=nt, classes=["big-" + case["shape"], f"proto{case['proto']}", "big-nt" if nt else "big-small"])


def fresh_job(case, kf_open):
    """-> (job for eglib.fresh, expected canonical form, expected battery)"""
    from edgegraph.structure import Vertex

    P = prepare(case, kf_open)
    w, order = P["w"], P["order"]
    vs_pos, ls_pos = positions(order, w.vs), positions(order, w.ls)
    Vertex.NEIGHBOR_CACHING = False
    bat = battery.evaluate([order[p] for p in vs_pos], [order[p] for p in ls_pos])
    job = dict(blob=P["blob"], flag=case["flag_load"], loader=case["loader"], vs_pos=vs_pos, ls_pos=ls_pos, want=["c10"])
    return job, P["form"], bat


def judge_fresh(r, form, bat):
    """-> None | (kind, detail)"""
    if r["error"]:
        return "fresh-interpreter-raised:" + r["error"].split(":")[0], r["error"]
    d = canon.first_form_difference(form, r["canon"])
    if d:
        return "fresh-copy-not-isomorphic", d
    d = battery.first_difference(bat, r["battery"])
    if d:
        return "fresh-copy-answers-differ", d
    if r["usable"] != "empty" and not all(r["usable"].values()):
        return "fresh-copy-not-usable", str(r["usable"])
    return None


def check_fresh(case):
    """Replay form of the extra phase for one case: load the blob in a fresh interpreter."""
    from eglib import fresh

    job, form, bat = fresh_job(case, KF1 in open_keys(ID))
    r = fresh.run_jobs([job])[0]
    bad = judge_fresh(r, form, bat)
    if bad:
        raise Violation(bad[0], bad[1])
    return dict(nt=len(r["canon"][1]) >= 4, classes=["fresh-interpreter"])


def _local_class_after_explicit_options(case):
    """
    A graph over a FUNCTION-LOCAL vertex class (dill pickles such a class by value) is dumped with default
    arguments after an earlier, unrelated dumps() call that spelled dill's options out: every call stands alone.
    """
    import dill

    from edgegraph.output import nrpickler
    from edgegraph.structure import DirectedEdge, Universe, Vertex

    class LocalStation(Vertex):
        pass

    a, b = LocalStation(attributes={"i": 0}), LocalStation(attributes={"i": 1})
    DirectedEdge(a, b)
    u = Universe(vertices=[a, b])
    sel = case.get("proto", 0) % 3
    try:
        nrpickler.dumps(Vertex(), **[dict(byref=True), dict(recurse=True), dict(byref=True, fmode=dill.CONTENTS_FMODE)][sel])
    except Exception:  # noqa - whatever that call does is its own business
        pass
    try:
        blob = nrpickler.dumps(u)
    except Exception as e:  # noqa
        raise Violation("dumps-raised:" + type(e).__name__, f"default-argument dumps of a graph over a function-local class, after an earlier dumps() with explicit dill options: {e!r}")
    try:
        cu = dill.loads(blob)
    except Exception as e:  # noqa
        raise Violation("loads-raised:" + type(e).__name__, f"graph over a function-local class: {e!r}")
    cv = cu.vertices
    require([getattr(x, "i", None) for x in cv] == [0, 1] and type(cv[0]).__name__ == "LocalStation" and len(cv[0].links) == 1 and cv[0].links[0].v2 is cv[1],
            "copy-not-isomorphic", "graph over a function-local class did not come back as built")


def check_case(case):
    if case.get("fresh"):
        return check_fresh(case["case"])
    if case["t"] == "big":
        return check_big(case)
    info = check_world(case)
    if (case.get("root", 0) + case.get("proto", 0)) % 4 == 0:
        _local_class_after_explicit_options(case)
        info["classes"] = list(info.get("classes", [])) + ["local-class-after-explicit-dill-options"]
    return info


# ----------------------------------------------------------------------------- known finding probe
def probes():
    def kf1():
        from edgegraph.output import nrpickler
        from edgegraph.structure import Vertex

        x, v = Vertex(), Vertex()
        T = (v,)
        x.t = T
        v.back = T
        try:
            blob = nrpickler.dumps(x)
        except AssertionError:
            return "reproduces"
        except Exception as e:  # noqa
            return ("different", repr(e))
        p = pickle.loads(blob)
        return "gone" if p.t[0].back is p.t else ("different", "round trip lost the sharing of the tuple")

    return [(KF1, kf1)]


# ----------------------------------------------------------------------------- fresh interpreter
def extra_phase(tier, seed, deadline):
    import collections
    import time

    import hypothesis
    from hypothesis import HealthCheck, Phase, given, settings

    from eglib import driver, fresh

    n = 150 if tier == "quick" else 3000
    cases = []

    @hypothesis.seed(driver.shard_seed(seed, ID + "-fresh", 0))
    @settings(max_examples=n, database=None, deadline=None, suppress_health_check=list(HealthCheck), phases=[Phase.generate])
    @given(strategy(tier))
    def collect(case):
        if case["t"] == "world":
            cases.append(case)

    collect()
    kf_open = KF1 in open_keys(ID)
    jobs, kept, expect = [], [], []
    failures = {}
    for case in cases:
        driver.reset_globals()
        try:
            job, form, bat = fresh_job(case, kf_open)
        except Violation as v:
            failures.setdefault(v.kind, (case, v.detail))
            continue
        finally:
            driver.reset_globals()
        jobs.append(job)
        expect.append((form, bat))
        kept.append(case)
    evaluations = 0
    nt = set()
    errors = []
    for lo in range(0, len(jobs), 250):
        if time.time() > deadline + 120:
            break
        try:
            res = fresh.run_jobs(jobs[lo:lo + 250])
        except Exception as e:  # noqa
            errors.append(f"fresh interpreter batch failed: {e}")
            break
        for k, r in enumerate(res):
            case = kept[lo + k]
            evaluations += 1
            bad = judge_fresh(r, *expect[lo + k])
            if bad:
                failures.setdefault(bad[0], ({"fresh": True, "case": case}, bad[1]))
            elif len(r["canon"][1]) >= 4:
                nt.add(driver.case_hash({"fresh": case}))
    return dict(
        evaluations=evaluations, skipped_budget=0, nt=nt, nt_enum=0,
        classes=collections.Counter({"fresh-interpreter-world": evaluations}), excluded=0, samples=[],
        failures=failures, harness_errors=errors, by_phase=collections.Counter({"fresh-interpreter": evaluations}),
        info={"fresh_interpreter_worlds": evaluations, "note": "blob loaded in a new process (generated loader and caching flag); canonical form, query battery and usability probe compared with the original's"},
    )
