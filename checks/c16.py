"""
C16 — plain-text rendering: one well-formed line per vertex listing its neighbours.
Case: see eglib/render.py (directed/undirected-family links only)
"""
from eglib import h, graphs, render
from eglib.driver import Violation, require
from eglib.model import ERROR, FORWARD, ref_neighbors

ID = "C16"
LEVEL = "exploration"
DESIGN_REF = "DESIGN.md §3 C16"
RULE = (
    "Hypothesis universes over worlds (<= 6 vertices, <= 10 links of the directed/undirected families incl. "
    "subclasses: isolated vertices, self-loops, parallel edges, undirected edges, neighbours outside the universe; "
    "other link classes make neighbors() raise under basic_render's defaults and are excluded by construction), "
    "rfunc in {None (repr), index titles incl. ones ending in ',' / ' ' / '->'}, sort in {None, key on i, reversed key, key with ties}.  Oracle: the exact "
    "expected text built from the reference FORWARD neighbour lists: lines in universe order (or sorted by the "
    "key), each `r(v) + ' -> ' + ', '.join(r(n))` with neighbours in neighbors() order (stable-sorted by the key "
    "when given); for a vertex without neighbours both 'x -> ' and 'x ->' are accepted; empty universe => None.  "
    "Every case renders twice: after the first call the rendering attributes change, one member leaves and one joins, and rfunc is either switched or the very same rfunc / sort function objects are passed again; the second text must reflect the new state only.  A few worlds are scaled up: a member with 70 / 300 links and universes whose first 258 / 300 members are isolated fillers.  rfunc may be non-injective (every vertex rendered as '*') and may have a second, defaulted positional parameter.  Before rendering, other callers have asked for every vertex's neighbours and scribbled on the lists they got.  Vertices may carry multi-line string attributes (the default rendering is repr(v): one line per member all the same); universe-vertices may contain other vertices.  Non-trivial = >= 1 member without neighbours and >= 1 member with >= 2 neighbours; distinct = distinct case value."
)
ASSUMPTIONS = [
    "only directed/undirected-family links (basic_render uses neighbors() defaults)",
    "a line for a vertex without neighbours may or may not carry the trailing space of the separator",
]
LEVEL_TEXT = "Exploration with an exact expected-text oracle computed from the reference neighbour function over random universes, rfunc and sort settings."
LEVEL_NOTE = "Trusts ref_neighbors and Python's stable sorted(). Search, not proof."
TECHNIQUE = "Hypothesis generation + exact expected-output oracle built from a reference model"


def budget(tier):
    if tier == "quick":
        return dict(shards=16, examples=2500, time_s=50)
    return dict(shards=16, examples=60000, time_s=850)


def strategy(tier):
    # classes 0-3: directed/undirected and a subclass of each (index 6, the multiply-inheriting directed class, is
    # left to C14/C15; indices 4/5 are unknown-class links, which make basic_render's neighbors() raise)
    return render.cases(classes=4)


_FMT = ["t%d"]


def _TITLE(v):
    """A persistent rfunc object; what it returns follows the vertex's CURRENT attribute."""
    return _FMT[0] % v.i


def _KEY_I(v):
    return v.i


def _KEY_NEG(v):
    return -v.i


def _KEY_PARITY(v):
    return v.i % 2


def check_case(case):
    vs, ls, u = render.build(case)
    if case["opt"] & 64:
        for v in vs[::2]:
            v.note = "first line\nsecond line -> x, y"     # unrelated multi-line user data on the vertices
    info = _check_render(case, vs, ls, u, 0)
    if render.perturb(case, vs, ls, u):
        # rendered again after attributes / membership changed, with another rfunc: nothing of the first call may linger
        info2 = _check_render(case, vs, ls, u, 1)
        info["classes"] = sorted(set(info["classes"]) | {"re-rendered-after-change"})
        info["nt"] = info["nt"] or info2["nt"]
    return info


def _check_render(case, vs, ls, u, phase):
    from edgegraph.output import plaintext

    G = graphs.abstract(vs, ls)
    for v in vs:
        # other callers in the process have asked for these vertices' neighbours and modified the lists they got
        try:
            h.neighbors(v, 0, 1)
            h.neighbors(v, 0, 2)
        except NotImplementedError:
            pass
    use_r = bool(case["opt"] & 1) if (phase == 0 or case["opt"] & 16) else not bool(case["opt"] & 32)
    sortsel = (case["opt"] >> 1) % 4
    # renderings may end in the characters of the separator (a comma, a blank): nothing of them may be lost
    same = bool(case["opt"] & 16)     # the second rendering reuses the very same rfunc / sort OBJECTS
    fmt = ["t%d", "t%d,", "t%d ", " ,t%d, ", "%d->", "t%d", "t%d", "t%d"][(case["extra"] + (0 if same else 3 * phase)) % 8]
    _FMT[0] = fmt
    title = _TITLE if same else (lambda v: fmt % v.i)
    if case["opt"] & 128 and not same:
        title = lambda v: "*"                    # a rendering that is NOT injective: every vertex is shown as "*"
    if case["opt"] & 256:
        # a one-argument rfunc that happens to have a second, defaulted positional parameter
        base_title = title

        def title(v, brackets=False, _base=base_title):
            return ("[%s]" % _base(v)) if brackets else _base(v)
    r = title if use_r else repr
    keys = [None, _KEY_I, _KEY_NEG, _KEY_PARITY][sortsel]
    try:
        txt = plaintext.basic_render(u, rfunc=title if use_r else None, sort=keys)
    except Exception as e:  # noqa
        raise Violation("render-raised", repr(e))
    members = render.distinct(u.vertices)
    if not members:
        require(txt is None, "empty-universe-not-None", repr(txt))
        return dict(nt=False, classes=["empty-universe"])
    require(isinstance(txt, str), "not-a-string", type(txt).__name__)
    vi = {id(v): i for i, v in enumerate(vs)}
    order = sorted(members, key=keys) if keys else list(members)
    exp_lines = []
    iso = many = False
    for v in order:
        nb = [vs[k] for k in ref_neighbors(G, vi[id(v)], FORWARD, ERROR, None)]
        if keys:
            nb = sorted(nb, key=keys)
        if not nb:
            iso = True
        if len(nb) >= 2:
            many = True
        exp_lines.append((r(v) + " -> " + ", ".join(r(x) for x in nb), not nb))
    got = txt.split("\n")
    require(len(got) == len(exp_lines), "line-count", f"{len(got)} lines for {len(exp_lines)} members: {txt!r}")
    for k, (g, (e, empty)) in enumerate(zip(got, exp_lines)):
        ok = g == e or (empty and g == e[:-1])
        if not ok:
            raise Violation("line-mismatch" if not empty else "isolated-vertex-line", f"line {k}: got {g!r}, expected {e!r}")
    classes = ["rfunc" if use_r else "repr", f"sort{sortsel}"]
    if use_r and fmt != "t%d":
        classes.append("rendering-ends-in-separator-characters")
    if iso:
        classes.append("isolated-member")
    if many:
        classes.append(">=2-neighbours")
    return dict(nt=iso and many, classes=classes)
