"""
C14 — PlantUML source shows each member vertex and each internal link once, correctly oriented.
Case: see eglib/render.py; "opt" bits select the option table.
"""
import collections
import re

from eglib import render
from eglib.driver import Violation, require

ID = "C14"
LEVEL = "exploration"
DESIGN_REF = "DESIGN.md §3 C14"
RULE = (
    "Hypothesis universes over worlds (<= 6 vertices, <= 10 links of 7 classes: self-loops, parallel and mixed "
    "edges, edge and vertex subclasses incl. multiply-inheriting ones whose configured ancestor is only on the MRO (not on the first-base chain) and two distinct vertex classes sharing one __name__, isolated members, links leaving the universe) x option tables: '$id' or "
    "format titles, show_attrs lists, vertex type object/class, per-class arrow ends from PlantUML tokens, "
    "entries for a subclass and/or only its base (MRO resolution), a TwoEndedLink entry so unknown-class links are "
    "renderable, user_render_func variant.  Parse-back oracle: first line @startuml, last @enduml; the multiset "
    "of declaration lines equals one per member with the title/type of the nearest configured class; the "
    "multiset of relation lines between two member titles equals one per internal link as `title(v1) "
    "<v1side>--<v2side> title(v2)` with the options of the link's nearest configured class; every other relation "
    "line corresponds to an existing link of a member; empty universe => None.  Every case renders twice: after the first rendering the vertices' title attributes are changed, one member leaves (from the vertex side) and one joins, and the second rendering - with the same option-table object or with another table in which nearer ancestors are (un)configured, optionally after a rendering that failed - must show the new state.  Title formats may contain a replacement field nested in a format spec (v{i:0{pad}d}); arrow ends may contain braces (crow's-foot ends).  Attribute lines of a declaration (format-agnostic `name = value`): every instance attribute selected by the nearest class's show_attrs is shown (the value of `i` is compared), nothing is shown that show_attrs does not select; also rendered with the library's own default option table (worlds with directed / undirected links only).  A few worlds are scaled up: a member with 70 / 300 links (leaves members or not) and universes whose first 258 / 300 members are isolated fillers.  Title formats may name a class-level constant of the vertex class; declarations may show an attribute that refers to another vertex (a ring of peers); Universe(vertices=) may be given a vertex twice; universe-vertices may contain other vertices.  Non-trivial = >= 2 internal links "
    "of different classes, or an internal self-loop, or a class resolved through the MRO; distinct = distinct case value."
)
ASSUMPTIONS = [
    "titles are unique and free of whitespace by construction",
    "relation lines for links that leave the universe are neither required nor forbidden",
    "the auto-generated note and skinparam lines are ignored by the parser",
]
LEVEL_TEXT = "Exploration by parse-back: the emitted text is parsed with two regular expressions and compared as multisets with the independently constructed expectation, over random universes and option tables."
LEVEL_NOTE = "Trusts the line grammar below (declaration / relation lines). Search, not proof."
TECHNIQUE = "Hypothesis generation + parse-back (round-trip) oracle with multiset comparison"

ARROWS = [("", ">"), ("", ""), ("<", ""), ("o", ">"), ("*", ""), ("<", ">"), ("", "|>"), ("}o", "||")]     # the last: PlantUML crow's-foot ends (braces)


def budget(tier):
    if tier == "quick":
        return dict(shards=16, examples=2500, time_s=50)
    return dict(shards=16, examples=60000, time_s=850)


def strategy(tier):
    return render.cases()


def make_options(opt, extra):
    from edgegraph.structure import DirectedEdge, TwoEndedLink, UnDirectedEdge, Vertex
    from eglib import classes as C

    idtitles = bool(opt & 1)
    id_attr = bool(opt & 64) and not idtitles     # titles formatted from the vertices' own attribute named `id`
    custom_sub = bool(opt & 2)      # entries for subclasses of vertex / edge
    klass = bool(opt & 4)           # base vertex type 'class' instead of 'object'
    base_only_arrows = bool(opt & 8)
    urf = bool(opt & 16)
    nested = bool(opt & 2048) and not idtitles and not (bool(opt & 64) and not idtitles)     # a title format with a replacement field nested in a format spec
    class_attr = bool(opt & 128) and custom_sub and not idtitles    # SubVertex titles use the CLASS-level constant `kind`
    peers = bool(opt & 256)                                           # the declarations also show `peer` (a neighbouring vertex object)
    px = ["^peer$"] if peers else []
    o = {
        "skinparams": {"dpi": "300"} if opt & 32 else {},
        Vertex: {"type": "class" if klass else "object", "show_attrs": ((["^i$"] if not idtitles else ["^i$", "^zz"]) if not id_attr else ["^id$", "^i$"]) + px + (["^pad$"] if nested else []),
                 "title_format": "$id" if idtitles else ("n{id}" if id_attr else ("v{i:0{pad}d}" if nested else "v{i}"))},
        DirectedEdge: dict(zip(("v1side", "v2side"), ARROWS[extra % 8] if base_only_arrows else ("", ">"))),
        UnDirectedEdge: {"v1side": "", "v2side": ""},
        TwoEndedLink: {"v1side": "x", "v2side": "x"},
    }
    if custom_sub:
        o[C.SubDirected] = dict(zip(("v1side", "v2side"), ARROWS[(extra + 3) % 8]))
        o[C.SubVertex] = {"type": "class", "show_attrs": ["^i$"] + (["^kind$"] if class_attr else []) + px, "title_format": "$id" if idtitles else ("s{i}{kind}" if class_attr else "s{i}")}
        o[C.SubOdd] = {"v1side": "+", "v2side": "+"}
        # a DIFFERENT class with the same __name__ ("SubVertex"), configured differently
        o[C.SubVertexTwin] = {"type": "object", "show_attrs": ["^i$"], "title_format": "$id" if idtitles else "w{i}"}
    return o, dict(idtitles=idtitles, custom_sub=custom_sub, urf=urf, id_attr=id_attr, class_attr=class_attr, peers=peers, nested=nested)


def DEFAULT_TABLE():
    """The documented defaults (docs/usage + the statement): vertices are objects titled by their id(), directed
    edges are drawn `-->`, undirected ones `--`.  Written down here independently of the library's table."""
    from edgegraph.structure import DirectedEdge, UnDirectedEdge, Vertex

    return {
        Vertex: {"type": "object", "title_format": "$id"},
        DirectedEdge: {"v1side": "", "v2side": ">"},
        UnDirectedEdge: {"v1side": "", "v2side": ""},
    }


def SHOW_ATTRS(cls, flags, opt):
    """The show_attrs patterns configured for `cls` in the table make_options(opt, ..) builds (or the default table)."""
    from edgegraph.structure import Vertex
    from eglib import classes as C

    if flags.get("default_table"):
        return [".+"]
    px = ["^peer$"] if flags["peers"] else []
    if cls is Vertex:
        return ((["^i$"] if not flags["idtitles"] else ["^i$", "^zz"]) if not flags["id_attr"] else ["^id$", "^i$"]) + px + (["^pad$"] if flags.get("nested") else [])
    if cls is C.SubVertex:
        return ["^i$"] + (["^kind$"] if flags["class_attr"] else []) + px
    return ["^i$"]


def nearest(cls, options):
    for c in cls.__mro__:
        if c in options:
            return c, options[c]
    return None, None


def check_case(case):
    from edgegraph.output import plantuml

    vs, ls, u = render.build(case)
    if case.get("extra", 0) & 2:
        from edgegraph.structure import Vertex
        from eglib import classes as C

        for v in vs:
            if type(v) is Vertex and v.i % 2 == 0:
                v.__class__ = C.DefaultAttrVertex      # answers every unknown attribute with None
    keep = {}     # the caller's option table object, reused across renderings in half of the cases
    sel = case.get("extra", 0)
    if sel & 4 and u.vertices and not (case["opt"] & 1):
        # a rendering that FAILS first (the title format names an attribute one member lacks), with the very table
        # object that is used afterwards; then the attribute is restored (with another value)
        victim = u.vertices[-1]
        saved = victim.i
        del victim.i
        options, _ = make_options(case["opt"], case["extra"])
        keep["options"] = options
        try:
            plantuml.render_to_plantuml_src(u, options)
        except Exception:  # noqa - a missing title attribute legitimately fails
            pass
        victim.i = saved + 50
        for v in vs:
            if v is not victim:
                v.i = v.i + 7      # the members rendered before the failure now have other titles
    info = _check_render(case, vs, ls, u, case["opt"], keep)
    if render.perturb(case, vs, ls, u):
        # a second rendering of the same universe after attributes / membership changed must show the NEW state;
        # with the same table object, or with ANOTHER table (subclass entries toggled: nearer ancestors (dis)appear)
        opt2 = case["opt"] if sel & 1 else case["opt"] ^ 2
        edited_in_place = False
        if opt2 != case["opt"]:
            if case["opt"] & 1024 and "options" in keep:
                # the caller EDITS its table object in place (entries for subclasses added / removed) and passes the
                # very same dict again
                table = keep["options"]
                newer, _ = make_options(opt2, case["extra"])
                for k in list(table):
                    if k not in newer:
                        del table[k]
                table.update(newer)
                edited_in_place = True
            else:
                keep.pop("options", None)
        info2 = _check_render(case, vs, ls, u, opt2, keep)
        info["classes"] = sorted(set(info["classes"]) | {"re-rendered-after-change"} | ({"re-rendered-with-table-edited-in-place"} if edited_in_place else {"re-rendered-with-another-table"} if opt2 != case["opt"] else {"same-table-object-reused"}))
        info["nt"] = info["nt"] or info2["nt"]
    return info


def _check_render(case, vs, ls, u, opt, keep):
    from edgegraph.output import plantuml

    options, flags = make_options(opt, case["extra"])
    keep_in = dict(keep)
    if flags.get("id_attr"):
        for v in vs:
            v.id = "x%d" % v.i      # user data that happens to be called `id`
    if flags.get("nested"):
        for v in vs:
            v.pad = 3                  # the width used by the nested format spec  v{i:0{pad}d}
    if flags.get("peers"):
        for k, v in enumerate(vs):
            v.peer = vs[(k + 1) % len(vs)]      # user data referring to other vertices (a ring: mutual for two vertices)
    if "options" in keep:
        options = keep["options"]          # the caller reuses its table object
    else:
        keep["options"] = options
    if flags["urf"]:
        from edgegraph.structure import Vertex

        options[Vertex]["user_render_func"] = lambda v, opts: f"object U{v.i} <<Custom>> {{\n}}\n"
    # the expectation is computed from an independent copy of the table (the library compiles show_attrs in place)
    ref_options, _ = make_options(opt, case["extra"])
    if opt & 512 and "options" not in keep_in and not flags["urf"]:
        # the library's OWN default table (the statement: "by default --> for directed and -- for undirected
        # edges"); it has entries for Vertex, DirectedEdge and UnDirectedEdge only, so only for worlds whose links
        # are all of those families
        from edgegraph.structure import DirectedEdge, UnDirectedEdge

        if all(isinstance(l, (DirectedEdge, UnDirectedEdge)) for l in ls):
            import copy

            options = copy.deepcopy(plantuml.PLANTUML_RENDER_OPTIONS)
            ref_options = {k: (dict(v) if isinstance(v, dict) else v) for k, v in DEFAULT_TABLE().items()}
            flags = dict(idtitles=True, custom_sub=False, urf=False, id_attr=False, class_attr=False, peers=False, nested=False, default_table=True)
            keep.pop("options", None)
    try:
        src = plantuml.render_to_plantuml_src(u, options)
    except Exception as e:  # noqa
        raise Violation("render-raised", repr(e))
    members = render.distinct(u.vertices)
    if not members:
        require(src is None, "empty-universe-not-None", repr(src)[:100])
        return dict(nt=False, classes=["empty-universe"])
    require(isinstance(src, str), "not-a-string", type(src).__name__)
    lines = src.split("\n")
    while lines and lines[-1] == "":
        lines.pop()
    require(lines[0] == "@startuml", "missing-startuml", lines[0])
    require(lines[-1] == "@enduml", "missing-enduml", lines[-1])
    require(lines.count("@startuml") == 1 and lines.count("@enduml") == 1, "marker-repeated", "")

    def title(v):
        c, o = nearest(type(v), ref_options)
        if o["title_format"] == "$id":
            return hex(id(v))
        return o["title_format"].format(i=v.i, id=getattr(v, "id", None), kind=getattr(v, "kind", None), pad=getattr(v, "pad", 0))

    def vtype(v):
        return nearest(type(v), ref_options)[1]["type"]

    mro_used = False
    for v in members:
        if nearest(type(v), ref_options)[0] is not type(v):
            mro_used = True
    # ---- declarations
    decl = [l for l in lines if re.match(r"^(object|class) \S+ <<\w+>> \{$", l)]
    if flags["urf"]:
        from edgegraph.structure import Vertex

        exp_decl = collections.Counter()
        for v in members:
            c, o = nearest(type(v), ref_options)
            if c is Vertex:
                exp_decl[f"object U{v.i} <<Custom>> {{"] += 1
            else:
                exp_decl[f"{vtype(v)} {title(v)} <<{type(v).__name__}>> {{"] += 1
    else:
        exp_decl = collections.Counter(f"{vtype(v)} {title(v)} <<{type(v).__name__}>> {{" for v in members)
    got_decl = collections.Counter(decl)
    if got_decl != exp_decl:
        raise Violation("declarations-mismatch", f"missing {dict(exp_decl - got_decl)}, unexpected {dict(got_decl - exp_decl)}")
    # ---- attribute lines: "show_attrs: regular expressions; if any match an instance attribute's name, that
    #      attribute (name and value) are included" - format-agnostic: a body line is <name> = <value>
    if not flags["urf"]:
        bodies = collections.defaultdict(list)
        cur = None
        for l in lines:
            if re.match(r"^(object|class) \S+ <<\w+>> \{$", l):
                cur = []
                bodies[l].append(cur)
            elif l == "}":
                cur = None
            elif cur is not None:
                m = re.match(r"^\s*(?:\{field\}\s*)?([A-Za-z_][\w.]*)\s*=\s?(.*)$", l)
                if m:
                    cur.append((m.group(1), m.group(2)))
        for v in members:
            pats = SHOW_ATTRS(nearest(type(v), ref_options)[0], flags, opt)
            sel = lambda a: any(re.match(p, a) for p in pats)
            must = {a for a in vars(v) if not a.startswith("_") and sel(a)}
            may = {a for a in dir(v) if sel(a)}
            hdr = f"{vtype(v)} {title(v)} <<{type(v).__name__}>> {{"
            ok = False
            for body in bodies.get(hdr, []):
                names = {a for a, _ in body}
                vals = dict(body)
                if must <= names <= (must | may) and ("i" not in must or vals.get("i") == str(v.i)):
                    ok = True
                    break
            if not ok:
                raise Violation("attribute-lines-mismatch", f"declaration {hdr!r}: show_attrs {pats} selects the instance attributes {sorted(must)} (i = {getattr(v, 'i', None)!r}); bodies found: {[sorted(b) for b in bodies.get(hdr, [])][:2]}")
    # ---- relations
    rel = [l for l in lines if re.match(r"^\S+ [^\s-]*--[^\s-]* \S+$", l)]

    def arrow(l):
        c, o = nearest(type(l), ref_options)
        return o["v1side"] + "--" + o["v2side"]

    memb = {id(v) for v in members}
    line_of = lambda l: f"{title(l.v1)} {arrow(l)} {title(l.v2)}"
    internal = collections.Counter(line_of(l) for l in ls if id(l.v1) in memb and id(l.v2) in memb)
    touching = collections.Counter(line_of(l) for l in ls if id(l.v1) in memb or id(l.v2) in memb)
    got = collections.Counter(rel)
    mt = {title(v) for v in members}
    got_internal = collections.Counter({k: c for k, c in got.items() if k.split(" ")[0] in mt and k.split(" ")[2] in mt})
    if got_internal != internal:
        raise Violation("relations-mismatch", f"internal links: missing {dict(internal - got_internal)}, unexpected {dict(got_internal - internal)}")
    for k, c in got.items():
        if touching[k] < c:
            raise Violation("relation-for-nonexistent-link", f"line {k!r} appears {c}x, only {touching[k]} such links exist")
    int_links = [l for l in ls if id(l.v1) in memb and id(l.v2) in memb]
    for l in ls:
        if nearest(type(l), ref_options)[0] is not type(l) and (id(l.v1) in memb and id(l.v2) in memb):
            mro_used = True
    nt = len({type(l) for l in int_links}) >= 2 or any(l.v1 is l.v2 for l in int_links) or mro_used
    classes = ["idtitles" if flags["idtitles"] else "format-titles"]
    if flags["custom_sub"]:
        classes.append("subclass-entries")
    if flags["urf"]:
        classes.append("user_render_func")
    if flags.get("default_table"):
        classes.append("library-default-option-table")
    if flags["class_attr"]:
        classes.append("title-from-class-level-attribute")
    if flags["peers"]:
        classes.append("attributes-referring-to-vertices-shown")
    if mro_used:
        classes.append("mro-resolution")
    if any(l.v1 is l.v2 for l in int_links):
        classes.append("internal-self-loop")
    if len(touching) > len(internal):
        classes.append("link-leaving-universe")
    return dict(nt=nt, classes=classes)
