"""
C06 — every traversal visits exactly the reachable in-universe vertices, once each.
Case: see eglib/trav.py
"""
from eglib import h
from eglib import trav
from eglib.driver import Violation, require

ID = "C06"
LEVEL = "exploration"
DESIGN_REF = "DESIGN.md §3 C06"
RULE = (
    "Hypothesis multigraphs (<= 8 vertices, <= 14 links of 6 classes: cycles, self-loops, parallel and mixed-class "
    "links, disconnected parts), a universe = ordered subset of the vertices or None (so linked non-members exist), "
    "start = any member, the universe optionally padded with 40 / 1000 isolated members,  3 directions x 3 unknown-handling modes, ff_via as a truth table over (link, vertex), "
    "ff_result as a truth table over vertices.  For bft, dft_recursive, dft_iterative: terminates (deterministic "
    "step budget on neighbors() calls), no repeats, first element is start, set(out) == least-fixpoint "
    "reachability computed independently, generator form == list form element by element (also when the generator is consumed partly, other traversals run, and it is then resumed), with ff_result the "
    "output == the unfiltered output restricted to accepted vertices; NotImplementedError exactly when a reached "
    "vertex carries an unknown-class link under LNK_UNKNOWN_ERROR.  Every case is evaluated a second time on the same objects after a membership swap (while partly consumed generators of the first phase are still suspended) (one member out, one non-member in; no link touched).  ff_result answers with bools or with None / a truthy object; some links are themselves catalogued in unrelated universes (the `uni` argument speaks about vertices only).  A few worlds are scaled up: a chain of 260 / 300 vertices in front of the start vertex and / or 70 / 340 (thorough: 1300) further links at the start vertex or at the chain's head, the added vertices inside or outside the universe.  Vertices that are universes may contain other linked vertices of the graph.  Non-trivial = reach set >= 3 vertices and "
    "(a cycle among reached vertices, or a reached vertex has a non-member neighbour, or ff_via prunes a link at a "
    "reached vertex); distinct = distinct case value."
)
ASSUMPTIONS = [
    "links have both ends assigned, except that with a universe given a link may have an unassigned (None) end - None is never a member; filters are pure functions of identity",
    "under LNK_UNKNOWN_ERROR with an ff_via that rejects every unknown-class link met, raising and not raising are both accepted",
    "start is a member of the universe (the documented precondition)",
]
LEVEL_TEXT = "Exploration over random finite multigraphs and all settings; oracle is a least-fixpoint reachability that shares no queue/stack logic with the code under test."
LEVEL_NOTE = "Trusts ref_reach/ref_neighbors (eglib/model.py). A hang that never calls neighbors() would surface as a harness timeout, not a verdict. Search, not proof."
TECHNIQUE = "Hypothesis multigraph generation vs. fixpoint-reachability oracle; differential generator-vs-list and ff_result metamorphic relation"


def budget(tier):
    if tier == "quick":
        return dict(shards=16, examples=1500, time_s=55)
    return dict(shards=16, examples=40000, time_s=850)


def strategy(tier):
    return trav.cases(big=(tier != "quick"))


def check_case(case):
    with trav.caching(case.get("cache")):
        return _check_case(case)


def _check_case(case):
    from edgegraph.traversal import breadthfirst as B
    from edgegraph.traversal import depthfirst as D

    S = trav.Setup(case)
    info = _check_on(S, case)
    # generators that stay SUSPENDED (partly consumed, never finished) while the universe changes and fresh
    # traversals run: whatever they hold on to must not leak into later calls
    suspended = []
    if case.get("swap") and S.uni is not None:
        for gen in (B.ibft, D.idft_recursive, D.idft_iterative):
            try:
                g = gen(S.uni, S.vs[S.start], **S.kw())
                next(g)
                suspended.append(g)
            except (StopIteration, NotImplementedError):
                pass
    if S.apply_swap():
        # the same objects after a membership swap (no link touched): everything must hold again
        info2 = _check_on(S, case)
        info["classes"] = sorted(set(info["classes"]) | {"after-membership-swap"})
        info["nt"] = info["nt"] or info2["nt"]
    for g in suspended:
        g.close()
    if case.get("take", 0) in (1, 3) and case.get("pad", 0) < 100:
        # ... and on a copy (deepcopy / pickle / nrpickler) of the world that has just been traversed
        S.replace_by_copy(case["take"] + len(S.vs))
        _check_on(S, case)
        info["classes"] = sorted(set(info["classes"]) | {"on-copy-of-traversed-graph"})
    return info


def _check_on(S, case):
    from edgegraph.traversal import breadthfirst as B
    from edgegraph.traversal import depthfirst as D

    verdict, R = S.expectation()
    n = len(S.vs)
    classes = {"caching-on" if case.get("cache") else "caching-off", f"dir{S.d}", f"unk{S.u}", f"pad{case.get('pad', 0)}", "universe" if S.uni is not None else "no-universe", "expect-" + verdict}
    outs = {}
    for name, fn, gen in (
        ("bft", B.bft, B.ibft),
        ("dft_recursive", D.dft_recursive, D.idft_recursive),
        ("dft_iterative", D.dft_iterative, D.idft_iterative),
    ):
        with trav.neighbor_budget(4 * (n + 2) * (n + 2) + 32):
            try:
                out = S.idx(trav.bounded_list(gen(S.uni, S.vs[S.start], **S.kw()), n + 1, name + " generator"))
            except NotImplementedError:
                out = "NIE"
        if verdict == "raise":
            require(out == "NIE", "missing-NotImplementedError", f"{name}: returned {out} although a reached vertex has an unknown-class link (ERROR mode)")
        elif verdict == "ok":
            require(out != "NIE", "unexpected-NotImplementedError", f"{name} raised NotImplementedError")
        if out == "NIE":
            with trav.neighbor_budget(4 * (n + 2) * (n + 2) + 32):
                try:
                    fn(S.uni, S.vs[S.start], **S.kw())
                except NotImplementedError:
                    pass
                else:
                    raise Violation("generator-list-disagree", f"{name}: generator raised NotImplementedError, list form returned")
            continue
        require(len(set(out)) == len(out), "vertex-repeated", f"{name}: {out}")
        require(out and out[0] == S.start, "start-not-first", f"{name}: {out} start={S.start}")
        require(set(out) == R, "reach-set-mismatch", f"{name}: visited {sorted(out, key=str)}, reachable set is {sorted(R)} (d={S.d} u={S.u} via={case['via']} uni={case['uni']})")
        with trav.neighbor_budget(4 * (n + 2) * (n + 2) + 32):
            lst = S.idx(fn(S.uni, S.vs[S.start], **S.kw()))
        require(lst == out, "generator-list-disagree", f"{name}: list {lst} generator {out}")
        # a partly consumed generator must not be disturbed by other traversals run in between
        k = case.get("take", 0)
        if k and len(out) > k:
            with trav.neighbor_budget(12 * (n + 2) * (n + 2) + 32):
                g = gen(S.uni, S.vs[S.start], **S.kw())
                head = [next(g) for _ in range(k)]
                for other in (B.bft, D.dft_recursive, D.dft_iterative):
                    other(S.uni, S.vs[S.start], **S.kw())
                    if len(out) > 1:
                        other(S.uni, S.vs[out[-1]], **S.kw())
                tail = trav.bounded_list(g, n + 1, name + " resumed generator")
            mixed = S.idx(head + tail)
            require(mixed == out, "interleaved-generator-disturbed", f"{name}: {k} items, other traversals, then the rest gives {mixed}; uninterrupted {out}")
        if S.rf is not None:
            with trav.neighbor_budget(4 * (n + 2) * (n + 2) + 32):
                try:
                    flt = S.idx(fn(S.uni, S.vs[S.start], **S.kw(res=True)))
                    fltg = S.idx(trav.bounded_list(gen(S.uni, S.vs[S.start], **S.kw(res=True)), n + 1, name))
                except NotImplementedError:
                    raise Violation("unexpected-NotImplementedError", f"{name} with ff_result raised")
            exp = [x for x in out if S.rf_int(x)]
            require(flt == exp, "ff_result-changes-reach", f"{name}: with ff_result {flt}, expected {exp} (unfiltered {out})")
            require(fltg == exp, "ff_result-changes-reach", f"{name} generator: with ff_result {fltg}, expected {exp}")
        outs[name] = out
    if len(outs) == 3:
        require(len({frozenset(o) for o in outs.values()}) == 1, "traversals-disagree-as-sets", str(outs))
    if case.get("cache") and len(outs) == 3 and S.f is not None:
        # caching on: the same traversal with OTHER filter objects in between (closures of one factory, bound
        # methods of differently configured objects of one class) must still obey ITS filter
        for name, fn in (("bft", B.bft), ("dft_recursive", D.dft_recursive), ("dft_iterative", D.dft_iterative)):
            for mk in (S.fresh_ff, S.fresh_method_ff):
                try:
                    fn(S.uni, S.vs[S.start], **h.kw(S.d, S.u), ff_via=mk(accept_all=True))
                except NotImplementedError:
                    pass
                again = S.idx(fn(S.uni, S.vs[S.start], **h.kw(S.d, S.u), ff_via=mk()))
                require(set(again) == R, "reach-set-mismatch", f"{name} after a call with another filter object (caching on): visited {sorted(again, key=str)}, reachable {sorted(R)}")
    nt = False
    if R is not None and len(R) >= 3:
        G = S.G
        cyc = nonmem = prune = False
        for x in R:
            for l in G.links_of[x]:
                kind, a, b = G.link[l]
                o = b if a == x else a
                if S.mem is not None and o not in S.mem:
                    nonmem = True
                if o is None:
                    classes.add("link-with-unassigned-end")
                if S.f is not None and not S.f(l, o):
                    prune = True
        # a cycle among reached vertices: more followed (v,w) pairs inside R than a tree has
        from eglib.model import ref_neighbors, NONNEIGHBOR, ERROR

        uu = NONNEIGHBOR if (S.u == ERROR) else S.u
        pairs = set()
        for x in R:
            for w in ref_neighbors(G, x, S.d, uu, S.f):
                if w in R:
                    pairs.add((x, w))
        cyc = len(pairs) > len(R) - 1
        nt = cyc or nonmem or prune
        if cyc:
            classes.add("cycle-or-multipath")
        if nonmem:
            classes.add("non-member-neighbour")
        if prune:
            classes.add("via-filter-prunes")
    if case.get("take"):
        classes.add("interleaved-generators")
    return dict(nt=nt, classes=sorted(classes))
