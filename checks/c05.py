"""
C05 — neighbor caching is transparent: cached answers always equal recomputed ones.

Case: {"nv": 2..5, "flag0": bool, "ops": [[name, i, j, k], ...]}
  ops = C01's full mutation alphabet + "flag" (k&1 -> new flag value) + "query" + "repickle".
Two executions of the same history on fresh objects: run A with the flag forced
off throughout, run B with the generated flag schedule; the query battery is
compared at every query op and at the end.
"""
import pickle

from hypothesis import strategies as st

from eglib import battery
from eglib.driver import Violation
from eglib.world import World

ID = "C05"
LEVEL = "exploration"
DESIGN_REF = "DESIGN.md §3 C05"
RULE = (
    "Histories over 2-5 vertices of C01's full mutation alphabet (edge constructors of 6 classes incl. self-loops "
    "and None ends, v1=/v2=, link_*(dontdup), unlink, add_to_link/remove_from_link, add_vertex/unlink_from, "
    "Vertex(links=), load_adj_dict / load_adj_matrix on existing vertices) interleaved with flag toggles (Vertex.NEIGHBOR_CACHING on/off at arbitrary points, incl. "
    "'mutate while off, query after on'), query points an in-process nrpickler round-trip of the whole world, and serialising the world (nrpickler / pickle / deepcopy) while the original keeps being used.  "
    "Each history is executed twice on fresh objects (A: flag forced off; B: generated flag schedule) and the full "
    "query battery - neighbors() for every vertex x 3 directions x 3 unknown modes x {no filter, shared callable, "
    "selective, fresh-but-equal bound method, unhashable callable}, bft/dft_*/bfs/dfs_* from every vertex under 4 "
    "settings, find_links for every ordered pair - must agree item by item (incl. exception type) at every query "
    "point and at the end.  Every fourth mutation between two query points is carried out by another thread (joined at once).  Also: 63-130 parallel links created at once, and PARTIAL query points (only the first n = 1..48 of 54 distinct questions about one vertex, so that the number of answers held for a vertex when the next mutation arrives takes every value).  Extra phase: histories are split in two, the prefix runs here with caching on, the world is pickled "
    "with warm caches and a fresh interpreter continues with the suffix (mutations and queries) with the flag on.  Non-trivial = two consecutive query points whose true answers differ (a "
    "mutation changed some neighbourhood) with the flag on at both, so run B had a warm entry to invalidate; "
    "distinct = distinct case value."
)
ASSUMPTIONS = [
    "filters are pure functions of (link identity, vertex identity); a filter reading mutable state would make any memoisation stale and is outside 'graph mutations'",
    "run A (flag never on) defines 'what it would return with caching disabled'",
]
LEVEL_TEXT = (
    "Differential exploration with a bounded-exhaustive core (every history of <= 3 / <= 4 steps from a 22-op alphabet over 2 vertices) and ~2*10^4 (quick) / 4*10^5 (thorough) Hypothesis histories, each run with and without caching and "
    "compared over a battery of ~300 queries per query point; plus fresh-interpreter batches.  The cache is a "
    "history-dependent optimisation, so only a differential over histories can decide it."
)
LEVEL_NOTE = "Trusts that executing a plain-data history twice builds identical graphs (checked: the uncached structural snapshots of A and B are compared too). Search, not proof."
TECHNIQUE = "differential stateful PBT: same Hypothesis-generated history executed with caching off vs. generated flag schedule; fresh-interpreter replay of pickled warm worlds"

OPS_W = (
    ["edge"] * 5 + ["v1"] * 3 + ["v2"] * 3 + ["link"] * 2 + ["unlink"] * 2
    + ["al", "rl", "av", "uf"] + ["newv", "adj", "bulk", "bulk_big"] + ["flag"] * 3 + ["query"] * 5 + ["queryn"] * 2 + ["repickle", "dumponly"]
)

# coverage-guided extra engine (atheris): executions per fuzzer process, 16 processes
FUZZ = dict(quick=0, thorough=6000)


def budget(tier):
    if tier == "quick":
        return dict(shards=16, examples=1100, time_s=58)
    return dict(shards=16, examples=25000, time_s=850)


def strategy(tier):
    maxlen = 25 if tier == "quick" else 50
    op = st.tuples(st.sampled_from(OPS_W), st.integers(0, 11), st.integers(0, 11), st.integers(0, 47))
    return st.builds(
        lambda nv, flag0, ops, vcls: {"nv": nv, "flag0": flag0, "vcls": vcls, "ops": [list(o) for o in ops]},
        st.integers(2, 4),
        st.booleans(),
        st.lists(op, max_size=maxlen),
        st.one_of(st.none(), st.lists(st.integers(0, 5), min_size=1, max_size=4)),
    )


def enumerate_cases(tier, shard=0, nshards=1):
    """Every short history over 2 vertices: the smallest counterexamples of this property are 3-4 steps long."""
    import itertools

    from eglib.driver import sharded

    depth = 3 if tier == "quick" else 4
    alpha = [("edge", a, b, c) for a in (0, 1) for b in (0, 1) for c in (0, 4)]          # DirectedEdge / OddLink
    alpha += [(nm, 0, x, 0) for nm in ("v1", "v2", "uf", "rl") for x in (0, 1)]
    alpha += [("unlink", 0, 1, 1), ("flag", 0, 0, 0), ("flag", 0, 0, 1), ("query", 0, 0, 0), ("repickle", 0, 0, 0), ("dumponly", 0, 0, 0)]

    def gen():
        for k in range(2, depth + 1):
            for seq in sharded(itertools.product(alpha, repeat=k), shard, nshards):
                if not any(o[0] in ("query", "repickle", "dumponly") for o in seq[:-1]):
                    continue          # without an intermediate read there is nothing cached to go stale
                yield {"nv": 2, "flag0": True, "vcls": None, "ops": [list(o) for o in seq]}

    n = sum(len(alpha) ** k for k in range(2, depth + 1))
    return gen(), (f"all histories of 2..{depth} steps from a {len(alpha)}-op alphabet over 2 vertices (edge constructors of a directed and an "
                   f"unknown-class link, v1=/v2=, unlink_from, remove_from_link, unlink, flag off/on, query, repickle, serialise-and-keep) that "
                   f"contain a read before their last step ({n} sequences before that filter), caching initially on")


def _in_thread(fn):
    import threading

    box = []

    def body():
        try:
            fn()
        except BaseException as e:  # noqa - re-raised in the calling thread
            box.append(e)

    t = threading.Thread(target=body)
    t.start()
    t.join()
    if box:
        raise box[0]


def run_ops(w, ops, flagged):
    """Execute ops on world w; -> (battery results at query ops + at the end, flag at each point, ops between)."""
    from edgegraph.output import nrpickler
    from edgegraph.structure import Vertex

    outs, flags, between = [], [], []
    cur = []
    for op in ops:
        r = w.resolve(op)
        if r is None:
            continue
        name = r[0]
        if name == "flag":
            if flagged:
                Vertex.NEIGHBOR_CACHING = bool(r[1] & 1)
            cur.append("flag-on" if r[1] & 1 else "flag-off")
            continue
        if name == "query":
            outs.append(battery.evaluate(w.vs, w.ls))
            flags.append(bool(Vertex.NEIGHBOR_CACHING))
            between.append(cur)
            cur = []
            continue
        if name == "queryn":
            # a partial query: only the first n questions about one vertex (the number of answers a cache holds
            # for a vertex when the next mutation arrives takes every value, not only multiples of the battery)
            outs.append(battery.partial(w.vs, w.ls, r[1], r[2]))
            flags.append(bool(Vertex.NEIGHBOR_CACHING))
            between.append(cur)
            cur = []
            continue
        if name == "dumponly":
            # the world is serialised (copy, pickle and nrpickler alike) and the ORIGINAL keeps being used
            try:
                import copy as _copy

                [lambda: nrpickler.dumps((w.vs, w.ls)), lambda: _copy.deepcopy((w.vs, w.ls)), lambda: pickle.dumps((w.vs, w.ls))][r[1] % 3]()
                cur.append("dumponly")
            except Exception as e:  # noqa (e.g. closures among cache keys are not picklable by the stdlib pickler)
                cur.append("dumponly-raised-" + type(e).__name__)
            continue
        if name == "repickle":
            try:
                w.vs, w.ls = pickle.loads(nrpickler.dumps((w.vs, w.ls)))
                cur.append("repickle")
            except Exception as e:  # noqa  (same in both runs; C10 judges the pickler)
                cur.append("repickle-raised-" + type(e).__name__)
            continue
        try:
            if len(cur) % 4 == 3 and name not in ("bulk", "bulk_av"):
                # this mutation is carried out by ANOTHER thread (joined at once): whoever changes the graph, every
                # thread's later queries see the change
                _in_thread(lambda: w.execute(r))
            else:
                w.execute(r)
            cur.append(name)
        except RecursionError:
            cur.append(name + "-raised")
        except Exception:  # noqa - tolerated as in C01; both runs see the same
            cur.append(name + "-raised")
    outs.append(battery.evaluate(w.vs, w.ls))
    flags.append(bool(Vertex.NEIGHBOR_CACHING))
    between.append(cur)
    return outs, flags, between


def run_history(case, flagged, keep_world=False):
    """-> (list of battery results at query points + final, flag-at-each-point, ops between, ...)"""
    from edgegraph.structure import Vertex

    Vertex.NEIGHBOR_CACHING = bool(case["flag0"]) if flagged else False
    w = World(case["nv"], 0, case.get("vcls"))
    try:
        outs, flags, between = run_ops(w, case["ops"], flagged)
        snap = w.snapshot()
    finally:
        final_flag = Vertex.NEIGHBOR_CACHING
        Vertex.NEIGHBOR_CACHING = False
    return outs, flags, between, snap, (w if keep_world else None), final_flag


def prefix_in_this_process(case, ops):
    """Used by the fresh-interpreter helper: build the world and run a history prefix with caching on; -> pickle."""
    from edgegraph.output import nrpickler
    from edgegraph.structure import Vertex

    Vertex.NEIGHBOR_CACHING = True
    try:
        w = World(case["nv"], 0, case.get("vcls"))
        run_ops(w, ops, flagged=True)
        return nrpickler.dumps({"vs": w.vs, "ls": w.ls, "unis": []})
    finally:
        Vertex.NEIGHBOR_CACHING = False


def continue_in_this_process(vs, ls, ops):
    """Used by the fresh-interpreter helper: continue a history on an un-pickled pool, caching on."""
    from edgegraph.structure import Vertex

    Vertex.NEIGHBOR_CACHING = True
    try:
        w = World.from_pool(vs, ls)
        outs, _, _ = run_ops(w, ops, flagged=True)
    finally:
        Vertex.NEIGHBOR_CACHING = False
    return outs


def split_case(case):
    ops = case["ops"]
    cut = (len(ops) * (1 + case["nv"] % 3)) // 4
    return [o for o in ops[:cut] if o[0] != "flag"], [o for o in ops[cut:] if o[0] != "flag"]


def check_fresh(case, both=True):
    """Replay form of the extra phase: the suffix (and, if `both`, the prefix too) in its own fresh interpreter."""
    from eglib import fresh

    prefix, suffix = split_case(case)
    a_outs, *_ = run_history(case, flagged=False)
    nq_prefix = sum(1 for o in case["ops"][: (len(case["ops"]) * (1 + case["nv"] % 3)) // 4] if o[0] in ("query", "queryn"))
    exp = a_outs[nq_prefix:]
    if both:
        a = fresh.run_jobs([dict(blob=None, flag=True, want=["c05prefix"], case=case, ops=prefix)])[0]
    else:
        try:
            a = dict(error=None, blob=prefix_in_this_process(case, prefix))
        except Exception as e:  # noqa
            a = dict(error=repr(e))
    if a["error"]:
        return dict(nt=False, classes=["fresh:prefix-not-picklable"])
    r = fresh.run_jobs([dict(blob=a["blob"], flag=True, loader="pickle", want=["c05suffix"], ops=suffix)])[0]
    if r["error"]:
        raise Violation("fresh-interpreter-raised:" + r["error"].split(":")[0], r["error"])
    got = r["outs"]
    if len(got) != len(exp):
        raise Violation("fresh-interpreter-answer-differs", f"{len(got)} query points in the fresh interpreter, {len(exp)} expected")
    for q, (e_, g_) in enumerate(zip(exp, got)):
        d = battery.first_difference(e_, g_)
        if d:
            raise Violation("fresh-interpreter-answer-differs", f"suffix query point {q}: {d}")
    return dict(nt=len(exp) >= 2 and exp[0] != exp[-1], classes=["fresh:both-halves"])


def check_case(case):
    if case.get("fresh"):
        return check_fresh(case["case"], both=(case["fresh"] != "batch"))
    a_outs, _, between, a_snap, _, _ = run_history(case, flagged=False)
    b_outs, b_flags, _, b_snap, _, _ = run_history(case, flagged=True)
    if a_snap != b_snap:
        raise Violation("structure-differs-with-caching", f"uncached {a_snap} cached {b_snap}")
    for q, (a, b) in enumerate(zip(a_outs, b_outs)):
        diff = battery.first_difference(a, b)
        if diff:
            label = diff.split(":")[0].split(" ")[0]
            raise Violation(
                f"cached-answer-differs:{label}",
                f"query point {q} (flag on={b_flags[q]}; ops since previous point: {between[q]}): {diff}",
            )
    classes = set()
    nt = False
    for q in range(1, len(a_outs)):
        if a_outs[q] != a_outs[q - 1]:
            ops = between[q]
            if b_flags[q] and b_flags[q - 1]:
                nt = True
                classes.add("answers-changed-between-warm-queries")
                for o in ops:
                    if o in ("v1", "v2"):
                        classes.add("mutated-by-end-assignment")
                    elif o == "unlink":
                        classes.add("mutated-by-unlink")
                    elif o in ("al", "rl"):
                        classes.add("mutated-on-vertex-side")
                    elif o in ("av", "uf"):
                        classes.add("mutated-on-link-side")
                    elif o == "adj":
                        classes.add("mutated-by-adjacency-builder")
                    elif o == "repickle":
                        classes.add("repickled-between")
                if "flag-off" in ops:
                    classes.add("mutated-while-flag-off")
            elif b_flags[q]:
                classes.add("answers-changed;flag-turned-on-later")
    return dict(nt=nt, classes=sorted(classes))


def extra_phase(tier, seed, deadline):
    """Fresh-interpreter clause: dump final worlds with warm caches, re-query them in a new process."""
    import collections
    import time

    import hypothesis
    from hypothesis import HealthCheck, Phase, given, settings

    from edgegraph.output import nrpickler
    from edgegraph.structure import Vertex
    from eglib import driver, fresh

    n = 200 if tier == "quick" else 2000
    cases = []
    t_prep = time.time()
    prep_budget = 60 if tier == "quick" else 300        # seconds for the (single-process) preparation below

    @hypothesis.seed(driver.shard_seed(seed, ID + "-fresh", 0))
    @settings(max_examples=n, database=None, deadline=None, suppress_health_check=list(HealthCheck), phases=[Phase.generate])
    @given(strategy(tier))
    def collect(case):
        cases.append(case)

    collect()
    jobs, expect, kept = [], [], []
    for case in cases:
        if time.time() - t_prep > prep_budget:
            break       # a time budget, not a verdict: the remaining collected histories are simply not used
        driver.reset_globals()
        # the fresh-interpreter clause is about state travelling between processes, not about sizes: the very large
        # bulk operations (covered by the main phase) would only make this single-process preparation slow
        case = dict(case, ops=[(["bulk"] + list(o[1:])) if o[0] == "bulk_big" else o for o in case["ops"]])
        ops = case["ops"]
        # split the history: the prefix runs here (caching on, queries warm the caches), the world is pickled,
        # and a FRESH interpreter continues with the suffix (mutations and queries), caching on
        cut = (len(ops) * (1 + case["nv"] % 3)) // 4
        prefix, suffix = ops[:cut], ops[cut:]
        try:
            a_outs, *_ = run_history(case, flagged=False)
            nq_prefix = sum(1 for o in prefix if o[0] in ("query", "queryn"))
            Vertex.NEIGHBOR_CACHING = True
            w = World(case["nv"], 0, case.get("vcls"))
            run_ops(w, [o for o in prefix if o[0] != "flag"], flagged=True)   # ends with a warming battery
            blob = nrpickler.dumps({"vs": w.vs, "ls": w.ls, "unis": []})
        except Exception:  # noqa - pickler problems are C10's business
            continue
        finally:
            Vertex.NEIGHBOR_CACHING = False
        jobs.append(dict(blob=blob, flag=True, loader="pickle", want=["c05suffix"], ops=[o for o in suffix if o[0] != "flag"]))
        # expected: the uncached run's batteries at the suffix's query points and at the end
        # (the prefix of a repickle-free history yields the same pool either way)
        expect.append(a_outs[nq_prefix:])
        kept.append(case)
    failures = {}
    nt = set()
    evaluations = 0
    errors = []

    def judge(case, exp, r, proto=True):
        nonlocal evaluations
        evaluations += 1
        wrap = {"fresh": proto, "case": case}
        if r["error"]:
            failures.setdefault("fresh-interpreter-raised:" + r["error"].split(":")[0], (wrap, r["error"]))
            return
        got = r["outs"]
        diff = None if len(got) == len(exp) else f"{len(got)} query points in the fresh interpreter, {len(exp)} expected"
        for q, (e_, g_) in enumerate(zip(exp, got)):
            if diff:
                break
            d = battery.first_difference(e_, g_)
            if d:
                diff = f"suffix query point {q}: {d}"
        if diff:
            failures.setdefault("fresh-interpreter-answer-differs", (wrap, diff))
        elif len(exp) >= 2 and exp[0] != exp[-1]:
            nt.add(driver.case_hash({"fresh": case}))

    # ---- protocol 1: BOTH halves in their own fresh interpreters (one process per half, per case), so that any
    # per-process state (counters, module-level memos) starts from scratch on both sides
    from concurrent.futures import ThreadPoolExecutor

    m = 96 if tier == "quick" else 600

    def both_fresh(k):
        case = kept[k]
        ops = case["ops"]
        cut = (len(ops) * (1 + case["nv"] % 3)) // 4
        prefix = [o for o in ops[:cut] if o[0] != "flag"]
        a = fresh.run_jobs([dict(blob=None, flag=True, want=["c05prefix"], case=case, ops=prefix)])[0]
        if a["error"]:
            return k, dict(error=None, outs=None, skip=True)
        return k, fresh.run_jobs([dict(blob=a["blob"], flag=True, loader="pickle", want=["c05suffix"], ops=jobs[k]["ops"])])[0]

    try:
        with ThreadPoolExecutor(16) as ex:
            for k, r in ex.map(both_fresh, range(min(m, len(kept)))):
                if r.get("skip"):
                    continue
                judge(kept[k], expect[k], r)
    except Exception as e:  # noqa
        errors.append(f"fresh interpreter (both halves) failed: {e}")
    both = evaluations

    # ---- protocol 2: prefix here, suffix in one fresh interpreter per batch
    for lo in range(0, len(jobs), 200):
        if time.time() > deadline + 120:
            break
        try:
            res = fresh.run_jobs(jobs[lo:lo + 200])
        except Exception as e:  # noqa
            errors.append(f"fresh interpreter batch failed: {e}")
            break
        for k, r in enumerate(res):
            judge(kept[lo + k], expect[lo + k], r, "batch")
    return dict(
        evaluations=evaluations, skipped_budget=0, nt=nt, nt_enum=0, classes=collections.Counter({"fresh-interpreter-world": evaluations}),
        excluded=0, samples=[], failures=failures, harness_errors=errors, by_phase=collections.Counter({"fresh-interpreter": evaluations}),
        info={"fresh_interpreter_worlds": evaluations, "both_halves_in_fresh_interpreters": both, "note": "each history is split: the prefix runs here with caching on (queries warm the caches), the world is pickled, a new process loads it with caching on and continues with the suffix (mutations and queries); every battery of the suffix is compared with the uncached run's"},
    )
