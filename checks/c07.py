"""
C07 — traversal order is the canonical BFS / DFS order induced by link order, deterministically.
Case: see eglib/trav.py
"""
from eglib import h
from eglib import graphs, trav
from eglib.driver import Violation, require
from eglib.model import ERROR, NONNEIGHBOR, ref_bfs, ref_dfs_pre, ref_dfs_stack, ref_neighbors

ID = "C07"
LEVEL = "exploration"
DESIGN_REF = "DESIGN.md §3 C07"
RULE = (
    "Same generator as C06 (multigraphs <= 8 vertices / <= 14 links, universes, all settings, filters), biased to "
    "graphs with >= 4 vertices and >= 6 links so that diamonds, parallel links and undirected cycles (where "
    "mark-on-pop vs mark-on-push and push order differ) are frequent.  bft / dft_recursive / dft_iterative must "
    "equal the reference BFS / recursive pre-order / explicit-stack order as index sequences; independently of "
    "those references: along bft's output hop distance from the start never decreases and equals the shortest "
    "distance, and each vertex's key (position of its earliest-listed predecessor, index in that predecessor's "
    "neighbour list) increases; dft_recursive's output obeys the pre-order rule (next vertex = first unlisted "
    "in-universe neighbour of the deepest path vertex that has one).  Determinism: repeating the call (also, with neighbor caching on, after calls with other short-lived filter callables) and "
    "rebuilding the description on fresh objects after unrelated allocations give the same index sequence.  "
    "Where the reference says NotImplementedError the same call is issued three times and must raise every time; with the defaults (FORWARD, ERROR, no filter) the call is also made with every optional argument omitted.  Universes are optionally padded with 40 / 1000 isolated members, a few worlds are scaled up (a chain of 260 / 300 vertices in front of the start vertex and / or 70 / 340 / 1300 further links at the start vertex or the chain's head), and every case is evaluated again on the same objects after a membership swap.  A deep family (spines of 1300-4000 vertices with a leaf per vertex, i.e. deeper than the recursion limit) requires canonical orders from bft and dft_iterative and forbids a non-canonical answer from dft_recursive (RecursionError = no answer is tolerated).  Non-trivial = some expanded vertex had >= 2 not-yet-listed neighbours (a real choice) and the three orders "
    "are not all equal; distinct = distinct case value."
)
ASSUMPTIONS = [
    "links have both ends assigned; filters are pure functions of identity; cases where the traversal must raise NotImplementedError are left to C06",
]
LEVEL_TEXT = "Exploration over random multigraphs with three independent reference orders plus order-free validity predicates (distance monotonicity, predecessor keys, pre-order rule) and a rebuild-determinism clause."
LEVEL_NOTE = "Trusts ref_bfs/ref_dfs_pre/ref_dfs_stack and the validity predicates below. Search, not proof."
TECHNIQUE = "Hypothesis multigraphs vs. reference orders + validity predicates; metamorphic rebuild/repeat determinism"


def budget(tier):
    if tier == "quick":
        return dict(shards=16, examples=1500, time_s=55)
    return dict(shards=16, examples=40000, time_s=850)


def strategy(tier):
    return trav.cases(big=(tier != "quick"), scale_rate=(150 if tier == "quick" else 60))


def enumerate_cases(tier, shard=0, nshards=1):
    """
    Small diamond-like graphs inside LARGE universes (padded with 1000 isolated members, i.e. more members than the
    interpreter's default recursion limit).  Enumerated rather than drawn because Hypothesis raises the recursion
    limit while it runs a test, which would hide size thresholds tied to it.
    """
    import itertools

    from eglib.driver import sharded

    pairs = [(0, 1), (0, 2), (1, 2), (1, 3), (2, 3), (2, 1), (3, 0)]
    shapes = [list(c) for r in (3, 4) for c in itertools.combinations(pairs, r)]
    cfgs = [(shape, cls, d) for shape in shapes for cls in (0, 1) for d in (0, 1)]

    def gen():
        for shape, cls, d in sharded(cfgs, shard, nshards):
            yield {"g": {"nv": 4, "vcls": None, "edges": [[cls, a, b] for a, b in shape], "reassign": []}, "uni": [0, 1, 2, 3],
                   "start": 0, "d": d, "u": 1, "via": None, "res": None, "cache": False, "pad": 1000, "swap": None, "take": 0}

    deep = [{"deep": {"spine": n, "leaf_first": lf, "cls": cls, "back": back}} for n in ((1300, 2500) if tier == "quick" else (1300, 2500, 4000))
            for lf in (True, False) for cls in (0, 1) for back in (False, True)]

    def gen_all():
        yield from gen()
        yield from sharded(deep, shard, nshards)

    return gen_all(), f"{len(deep)} deep graphs (a spine of 1300-4000 vertices, deeper than the recursion limit, with a leaf at every spine vertex, attached before or after the spine edge) + {len(cfgs)} diamond-like graphs (3-4 of 7 candidate links over 4 vertices, directed / undirected, FORWARD / ANY) in universes padded to 1004 members"


def _distances(N, s):
    dist = {s: 0}
    frontier = [s]
    while frontier:
        nxt = []
        for x in frontier:
            for w in N(x):
                if w not in dist:
                    dist[w] = dist[x] + 1
                    nxt.append(w)
        frontier = nxt
    return dist


def check_deep(spec):
    """
    A graph much deeper than the recursion limit.  bft and dft_iterative must list it in canonical order;
    dft_recursive may raise RecursionError (no answer) but must not return a NON-canonical order.
    """
    from edgegraph.structure import Universe
    from edgegraph.traversal import breadthfirst as B
    from edgegraph.traversal import depthfirst as D
    from eglib import classes as C
    from eglib import graphs
    from eglib.model import ref_bfs, ref_dfs_pre_iter, ref_dfs_stack

    n, E = spec["spine"], C.LINK_CLASSES[spec["cls"]]
    spine = [C.Vertex(attributes={"i": i}) for i in range(n)]
    leaves = [C.Vertex(attributes={"i": n + i}) for i in range(n)]
    ls = []
    for i in range(n):
        if spec["leaf_first"]:
            ls.append(E(spine[i], leaves[i]))
        if i + 1 < n:
            ls.append(E(spine[i], spine[i + 1]))
        if not spec["leaf_first"]:
            ls.append(E(spine[i], leaves[i]))
        if spec["back"] and i >= 2:
            ls.append(E(spine[i], spine[i - 2]))
    vs = spine + leaves
    G = graphs.abstract(vs, ls)
    vi = {id(v): k for k, v in enumerate(vs)}
    uni = Universe(vertices=vs)
    for name, fn, ref in (("bft", B.bft, ref_bfs), ("dft_iterative", D.dft_iterative, ref_dfs_stack), ("dft_recursive", D.dft_recursive, ref_dfs_pre_iter)):
        if name == "bft":
            # ref_bfs is quadratic (list membership): use the equivalent level order computed with a set
            seen, exp, q = {0}, [0], 0
            while q < len(exp):
                for w in ref_neighbors(G, exp[q], 0, 1, None):
                    if w not in seen:
                        seen.add(w)
                        exp.append(w)
                q += 1
        elif name == "dft_iterative":
            seen, exp, st_ = set(), [], [0]
            while st_:
                x = st_.pop()
                if x in seen:
                    continue
                seen.add(x)
                exp.append(x)
                st_.extend(ref_neighbors(G, x, 0, 1, None))
        else:
            exp = ref(G, 0, None, 0, 1, None)
        try:
            got = [vi[id(x)] for x in fn(None, spine[0], **h.kw(u=1))]
        except RecursionError:
            if name == "dft_recursive":
                continue           # no answer is acceptable for the recursive form
            raise Violation("RecursionError", f"{name} on a graph of depth {n}")
        if got != exp:
            k = next(i for i, (a, b) in enumerate(zip(got + [None], exp + [None])) if a != b)
            raise Violation(f"{name}-order", f"deep graph (spine {n}, leaf_first={spec['leaf_first']}, back={spec['back']}): first difference at position {k}: got {got[k:k + 4]}, canonical {exp[k:k + 4]}")
    return dict(nt=True, classes=["deep-graph"])


def check_case(case):
    if "deep" in case:
        return check_deep(case["deep"])
    with trav.caching(case.get("cache")):
        return _check_case(case)


def _check_case(case):
    S = trav.Setup(case)
    info = _check_on(S, case)
    if S.apply_swap():
        info2 = _check_on(S, case, rebuild=False)
        info["classes"] = sorted(set(info["classes"]) | {"after-membership-swap"})
        info["nt"] = info["nt"] or info2["nt"]
    return info


def _check_on(S, case, rebuild=True):
    from edgegraph.traversal import breadthfirst as B
    from edgegraph.traversal import depthfirst as D

    verdict, R = S.expectation()
    if verdict == "raise":
        # the reference says NotImplementedError (an unknown-class link is met under LNK_UNKNOWN_ERROR): the SAME call
        # repeated must fail the same way - not answer with whatever the failed call had got to
        for name, fn in (("bft", B.bft), ("dft_recursive", D.dft_recursive), ("dft_iterative", D.dft_iterative)):
            for attempt in (1, 2, 3):
                try:
                    got = S.idx(fn(S.uni, S.vs[S.start], **S.kw()))
                except NotImplementedError:
                    continue
                raise Violation("missing-NotImplementedError", f"{name}, attempt {attempt} of the same call: returned {got} although an unknown-class link is met under LNK_UNKNOWN_ERROR (caching={case.get('cache')})")
        return dict(nt=False, classes=["raises-NotImplementedError-every-time"])
    if verdict != "ok":
        return dict(nt=False, classes=["skipped:" + verdict])
    n = len(S.vs)
    G, s, mem, d, f = S.G, S.start, S.mem, S.d, S.f
    u = NONNEIGHBOR if S.u == ERROR else S.u

    def N(x):
        return [w for w in ref_neighbors(G, x, d, u, f) if mem is None or w in mem]

    start = S.vs[s]
    with trav.neighbor_budget(4 * (n + 2) * (n + 2) + 32):
        bft = S.idx(B.bft(S.uni, start, **S.kw()))
    with trav.neighbor_budget(4 * (n + 2) * (n + 2) + 32):
        dfr = S.idx(D.dft_recursive(S.uni, start, **S.kw()))
    with trav.neighbor_budget(4 * (n + 2) * (n + 2) + 32):
        dfi = S.idx(D.dft_iterative(S.uni, start, **S.kw()))

    exp_b = ref_bfs(G, s, mem, d, u, f)
    exp_r = ref_dfs_pre(G, s, mem, d, u, f)
    exp_i = ref_dfs_stack(G, s, mem, d, u, f)
    ctx = f"(start={s} d={S.d} u={S.u} via={case['via']} uni={case['uni']})"
    require(bft == exp_b, "bft-order", f"bft {bft} != reference BFS {exp_b} {ctx}")
    require(dfr == exp_r, "dft_recursive-order", f"dft_recursive {dfr} != reference pre-order {exp_r} {ctx}")
    require(dfi == exp_i, "dft_iterative-order", f"dft_iterative {dfi} != reference stack order {exp_i} {ctx}")

    # ---- order-free validity predicates (cubic in the number of listed vertices: small worlds only; for scaled-up
    #      worlds the three reference orders above are the oracle)
    small = len(bft) <= 40
    dist = _distances(N, s) if small else {}
    ds = [dist.get(x) for x in bft] if small else []
    require(all(x is not None for x in ds), "bft-lists-unreachable", f"{bft}")
    require(all(ds[i] <= ds[i + 1] for i in range(len(ds) - 1)), "bft-distance-decreases", f"bft {bft} distances {ds}")
    pos = {x: i for i, x in enumerate(bft)}
    keys = []
    for w in (bft[1:] if small else []):
        p = min(pos[x] for x in bft if w in N(x) and pos[x] < pos[w]) if any(w in N(x) and pos[x] < pos[w] for x in bft) else None
        require(p is not None, "bft-no-listed-predecessor", f"bft {bft}: {w} has no earlier-listed predecessor")
        keys.append((p, N(bft[p]).index(w)))
    require(all(keys[i] < keys[i + 1] for i in range(len(keys) - 1)), "bft-predecessor-keys", f"bft {bft} keys {keys}")
    # pre-order rule
    listed = [dfr[0]] if dfr else []
    path = list(listed)
    for w in (dfr[1:] if small else []):
        while path and not [x for x in N(path[-1]) if x not in listed]:
            path.pop()
        require(bool(path), "dft_recursive-preorder", f"{dfr}: {w} listed after the search space was exhausted")
        first = [x for x in N(path[-1]) if x not in listed][0]
        require(first == w, "dft_recursive-preorder", f"{dfr}: after {listed} the next vertex must be {first}, got {w}")
        listed.append(w)
        path.append(w)

    # ---- determinism: repeat, and rebuild on fresh objects after unrelated allocations
    for name, fn, first in (("bft", B.bft, bft), ("dft_recursive", D.dft_recursive, dfr), ("dft_iterative", D.dft_iterative, dfi)):
        again = S.idx(fn(S.uni, start, **S.kw()))
        require(again == first, "not-repeatable", f"{name}: {first} then {again}")
        if S.d == 0 and S.u == 2 and S.ff is None:
            # the documented defaults (FORWARD, LNK_UNKNOWN_ERROR, no filters) with every optional argument omitted
            plain = S.idx(fn(S.uni, start))
            require(plain == first, "defaults-mismatch", f"{name}(uni, start) with the optional arguments omitted lists {plain}; with the documented defaults spelled out {first}")
    if case.get("cache"):
        # with neighbor caching on: short-lived filter callables of different behaviour must not be confused
        for name, fn, first in (("bft", B.bft, bft), ("dft_recursive", D.dft_recursive, dfr), ("dft_iterative", D.dft_iterative, dfi)):
            for mk in (S.fresh_ff, S.fresh_method_ff):
                try:
                    fn(S.uni, start, **h.kw(S.d, S.u), ff_via=mk(accept_all=True))
                except NotImplementedError:
                    pass  # the accept-all filter may reach an unknown-class link the real filter prunes (ERROR mode)
                again = S.idx(fn(S.uni, start, **h.kw(S.d, S.u), ff_via=mk()))
                require(again == first, "order-depends-on-earlier-call", f"{name} (caching on): {first} first, {again} after a call with another short-lived filter")
    junk = [object() for _ in range(257)] + [graphs.build({"nv": 3, "edges": [[0, 0, 1]], "reassign": []})]
    if rebuild:
        S2 = trav.Setup(case)
        for name, fn, first in (("bft", B.bft, bft), ("dft_recursive", D.dft_recursive, dfr), ("dft_iterative", D.dft_iterative, dfi)):
            again = S2.idx(fn(S2.uni, S2.vs[s], **S2.kw()))
            require(again == first, "rebuild-changes-order", f"{name}: {first} on the first build, {again} on an identical rebuild")
    del junk

    # ---- classification
    choice = not small
    seen = set()
    for x in (bft if small else []):
        seen.add(x)
        if len({w for w in N(x) if w not in seen}) >= 2:
            choice = True
        seen.update(N(x))
    differ = not (bft == dfr == dfi)
    classes = ["caching-on" if case.get("cache") else "caching-off", f"pad{case.get('pad', 0)}"]
    if choice:
        classes.append("real-choice")
    if differ:
        classes.append("orders-differ")
    if dfr != dfi:
        classes.append("recursive!=iterative")
    return dict(nt=choice and differ, classes=classes)
