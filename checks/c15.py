"""
C15 — PyVis export: one node per member vertex, only real edges, correctly directed.
Case: see eglib/render.py
"""
import collections

from eglib import render
from eglib.driver import Violation, require

ID = "C15"
LEVEL = "exploration"
DESIGN_REF = "DESIGN.md §3 C15"
RULE = (
    "Hypothesis universes over worlds (<= 6 vertices, <= 10 links of 7 classes incl. self-loops, parallel edges, "
    "mixed directed/undirected/unknown-class links, links leaving the universe, vertices carrying unrelated "
    "attributes), rvfunc = index title (one persistent function object) or default, refunc optional, network_kwargs in {default, directed=True, directed=False}.  Oracle on the returned network: node ids are "
    "0..n-1 in universe order with label rvfunc(v) (hex(id(v)) by default); every edge joins two node ids that are "
    "joined by at least one link; the multiset of arrowed edges (from,to) equals the multiset of (index(v1), "
    "index(v2)) over directed-family links with both ends members; an arrow-less edge implies a non-directed link "
    "joining that pair; every link with both ends members (self-loops included) leaves its pair joined by >= 1 edge. "
    "Each case exports two universes over the same vertices one after the other (the second contains members linked to non-members that were members of the first) and requires that no vertex gained an attribute; then the first universe is exported again after a member left from the vertex side, another joined and the label attributes changed.  A few worlds are scaled up: a member with 70 / 300 links (optionally a self-loop among them) and universes whose first 258 / 300 members are isolated fillers.  Optionally an export that FAILS comes first (the label function raises for one vertex - a member, or the first vertex of a larger universe that is not a member of the one checked).  Universe(vertices=) may be given a vertex twice (one node per distinct member); optionally a further vertex is attached to an existing edge with add_vertex (the edge still joins v1 and v2 only).  Non-trivial = >= 1 directed and >= 1 undirected internal link, or an internal self-loop, or a link leaving the "
    "universe; distinct = distinct case value."
)
ASSUMPTIONS = [
    "pyvis itself suppresses repeated undirected edges between one pair, hence 'at least one' for non-directed links",
    "vertices do not carry an attribute named __make_pyvis_net_i of their own",
]
LEVEL_TEXT = "Exploration: the exported node and edge lists are compared with multisets built independently from the generated world."
LEVEL_NOTE = "Trusts pyvis's node/edge dictionaries (id, label, from, to, arrows) as the observable output. Search, not proof."
TECHNIQUE = "Hypothesis generation + structural oracle over the exported network (multiset comparison both directions)"


def budget(tier):
    if tier == "quick":
        return dict(shards=16, examples=1500, time_s=50)
    return dict(shards=16, examples=40000, time_s=850)


def strategy(tier):
    return render.cases()


def _TITLE(v):
    """One persistent rvfunc object for all exports (its output follows the vertex's current attribute)."""
    return "n%d" % v.i


def check_case(case):
    from edgegraph.structure import Universe

    vs, ls, u = render.build(case)
    for k, v in enumerate(vs):
        if (case["extra"] >> (k % 3)) & 1:
            v.payload = {"k": k}
            v.label = "unrelated"
    if case["opt"] & 256 and ls:
        # a further vertex attached to an existing two-ended link through the public API (its v1 / v2 are unchanged)
        l, x = ls[case["extra"] % len(ls)], vs[(case["extra"] * 3 + 1) % len(vs)]
        if all(x is not y for y in l.vertices):
            l.add_vertex(x)
    attrs_before = [sorted(vars(v)) for v in vs]
    if case["opt"] & 512 and u.vertices:
        # an export that fails part-way (the label function raises for one member): nothing of it may influence the
        # exports that follow, of this or of another universe
        from edgegraph.output import pyvis as _pyvis

        members0 = u.vertices
        outsiders = [v for v in vs if all(v is not m for m in members0)]
        if outsiders and case["extra"] & 1:
            # ... of a LARGER universe: the vertex the label function refuses is not a member of `u` (but may be linked
            # to its members)
            victim = outsiders[0]
            failing_uni = Universe(vertices=[victim] + members0)
        else:
            victim = members0[case["extra"] % len(members0)]
            failing_uni = u

        def failing(v):
            if v is victim:
                raise KeyError("no label for this vertex")
            return _TITLE(v)

        try:
            _pyvis.make_pyvis_net(failing_uni, rvfunc=failing)
        except KeyError:
            pass
        require([sorted(vars(v)) for v in vs] == attrs_before, "export-left-attribute", "a vertex gained or lost an attribute during an export whose rvfunc raised")
    info = _check_export(case, vs, ls, u)
    # a second export, of another universe over the same vertices (the complement plus the first member, in
    # reverse order): nothing of the first export may influence it, and no vertex may have gained an attribute
    first = u.vertices[:1]
    rest = [v for v in reversed(vs) if all(v is not m for m in u.vertices)]
    u2 = Universe(vertices=rest + first if (case["opt"] & 8) else rest)
    require([sorted(vars(v)) for v in vs] == attrs_before, "export-left-attribute", "a vertex gained or lost an attribute during make_pyvis_net")
    info2 = _check_export(case, vs, ls, u2)
    require([sorted(vars(v)) for v in vs] == attrs_before, "export-left-attribute", "a vertex gained or lost an attribute during the second export")
    # third export: the FIRST universe again after its membership changed from the vertex side and labels changed
    if render.perturb(case, vs, ls, u):
        _check_export(case, vs, ls, u)
        require([sorted(vars(v)) for v in vs] == attrs_before, "export-left-attribute", "a vertex gained or lost an attribute during the third export")
    info["classes"] = sorted(set(info["classes"]) | {"second-export:" + c for c in info2["classes"] if c in ("link-leaving-universe",)})
    return info


def _check_export(case, vs, ls, u):
    from edgegraph.output import pyvis
    from edgegraph.structure import DirectedEdge

    title = _TITLE
    nk = [None, None, {"directed": True}, {"directed": False, "cdn_resources": "local"}][(case["opt"] >> 4) % 4]
    use_rv = bool(case["opt"] & 1)
    use_re = bool(case["opt"] & 2)
    li = {id(l): i for i, l in enumerate(ls)}
    try:
        if case["opt"] & 4:
            net = pyvis.pyvis_render_customizable(u, rvfunc=title if use_rv else None, refunc=(lambda e: "e%d" % li[id(e)]) if use_re else None)
        elif nk is not None:
            net = pyvis.make_pyvis_net(u, rvfunc=title if use_rv else None, refunc=(lambda e: "e%d" % li[id(e)]) if use_re else None, network_kwargs=dict(nk))
        else:
            net = pyvis.make_pyvis_net(u, rvfunc=title if use_rv else None, refunc=(lambda e: "e%d" % li[id(e)]) if use_re else None)
    except Exception as e:  # noqa
        raise Violation("export-raised", repr(e))
    members = render.distinct(u.vertices)
    n = len(members)
    ids = [nd["id"] for nd in net.nodes]
    require(ids == list(range(n)), "node-ids", f"{ids} for {n} members")
    labels = [nd["label"] for nd in net.nodes]
    exp_labels = [title(v) if use_rv else hex(id(v)) for v in members]
    require(labels == exp_labels, "node-labels", f"{labels} vs {exp_labels}")
    pos = {id(v): i for i, v in enumerate(members)}
    internal = [l for l in ls if len(l.vertices) >= 2 and id(l.v1) in pos and id(l.v2) in pos]
    directed = collections.Counter((pos[id(l.v1)], pos[id(l.v2)]) for l in internal if isinstance(l, DirectedEdge))
    undirected_pairs = {frozenset((pos[id(l.v1)], pos[id(l.v2)])) for l in internal if not isinstance(l, DirectedEdge)}
    all_pairs = {frozenset((pos[id(l.v1)], pos[id(l.v2)])) for l in internal}
    got_dir = collections.Counter()
    joined = set()
    for e in net.edges:
        a, b = e["from"], e["to"]
        require(a in range(n) and b in range(n), "edge-to-nonmember", str(e))
        pair = frozenset((a, b))
        require(pair in all_pairs, "edge-without-link", f"edge {a}->{b} but no link joins members {a} and {b}")
        joined.add(pair)
        if e.get("arrows") == "to":
            got_dir[(a, b)] += 1
        else:
            require(pair in undirected_pairs, "arrowless-edge-for-directed-link", f"edge {a}--{b} has no arrow but only directed links join that pair")
    if got_dir != directed:
        raise Violation("directed-edges-mismatch", f"arrowed edges: missing {dict(directed - got_dir)}, unexpected {dict(got_dir - directed)}")
    for l in internal:
        pair = frozenset((pos[id(l.v1)], pos[id(l.v2)]))
        if pair not in joined:
            raise Violation("link-not-exported", f"link {type(l).__name__} {pos[id(l.v1)]}->{pos[id(l.v2)]} (self-loop={l.v1 is l.v2}) leaves its nodes unjoined")
    has_d = any(isinstance(l, DirectedEdge) for l in internal)
    has_u = any(not isinstance(l, DirectedEdge) for l in internal)
    selfl = any(l.v1 is l.v2 for l in internal)
    leaving = any((id(l.v1) in pos) != (id(l.v2) in pos) for l in ls if len(l.vertices) >= 2)
    classes = []
    if has_d and has_u:
        classes.append("directed+undirected")
    if selfl:
        classes.append("internal-self-loop")
    if leaving:
        classes.append("link-leaving-universe")
    if not use_rv:
        classes.append("default-labels")
    if nk is not None:
        classes.append("network_kwargs:" + ("directed" if nk.get("directed") else "undirected"))
    return dict(nt=(has_d and has_u) or selfl or leaving, classes=classes)
