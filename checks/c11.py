"""
C11 — adjacency builders build exactly the described graph; bad input is rejected whole.

Case forms
  {"t":"dict", "nv":n, "nuni_v":k, "rows":[[key,[vals..]],..], "cls":0..5, "prior":[[a,b,cls],..], "prior_uni":[idx..], "itkind":0..3}
  {"t":"matrix", "n":n, "cells":[[sel..]..], "cls":.., "prior":[..], "bad":0..4, "badpos":int, "dupside": bool}
"""
from eglib import h
import collections

from hypothesis import strategies as st

from eglib.driver import Violation, require

ID = "C11"
LEVEL = "exploration"
DESIGN_REF = "DESIGN.md §3 C11"
RULE = (
    "load_adj_dict: dicts over a pool of 1-5 vertices (the last one a Universe used as a vertex) with empty rows, "
    "self entries, repeated entries, rows given as list / tuple / one-shot iterator / generator; load_adj_matrix: "
    "n x n (n = 0..5) cells drawn from arbitrary truthy/falsy values (0, 1, 2, -1, '', 'x', None, [], [0], 0.0, "
    "nan, object()), side array; link type in 12 classes (incl. a multiply-inheriting one, one deriving from both edge classes, a falsy one and one whose constructor names its positional parameters differently); vertices carry prior links (to pool and non-pool vertices) "
    "and prior universes.  Error inputs: ragged / non-square matrices, side array too short / too long.  Oracle: "
    "the result is a new Universe whose vertices are the named vertices in first-mention (side-array) order; the "
    "links that did not exist before are exactly one per listed pair / truthy cell, type(l) is the requested class, "
    "l.v1/l.v2 = key/row -> value/column, creation order = input order (observable as the suffix order of each "
    "vertex's links); every vertex's prior links and universes are an unchanged prefix; read-back through "
    "neighbors() and find_links reproduces the adjacency (symmetric closure for undirected types).  A matrix that loaded fine is edited in place into a non-square one and loaded again (same object).  Error inputs "
    "raise ValueError with every input vertex's snapshot unchanged.  Half of the cases run with neighbor caching on and warm caches (the builders must leave the cache consistent).  Bad matrices include one row too long and the next too short (n * n cells all the same).  linktype is omitted where the requested type is the documented default; an empty description is loaded twice (the second universe is a new, empty one although the caller populated the first).  Matrix sizes 0-5 and 65 / 80 / 257 / 300 (pattern in the corners and at the far ends of the first row / column).  13 link classes (one takes the two ends as its only constructor arguments); in half of the cases the prior universe lives under restrictive laws (cycles=False, ...).  Non-trivial = >= 3 pairs and (a self entry, a "
    "repeated entry or a prior link); distinct = distinct case value."
)
ASSUMPTIONS = [
    "dict keys and row entries are Vertex instances; the side array has no repeated vertex (a repeated vertex in the side array has no documented meaning)",
    "cell truthiness is bool(cell)",
]
LEVEL_TEXT = "Exploration: ~5*10^4 (quick) / 10^6 (thorough) generated adjacency inputs incl. error inputs, checked by reconstruction of the expected graph and by read-back through the query API."
LEVEL_NOTE = "Trusts the expected-graph reconstruction below (pairs in input order). Search, not proof."
TECHNIQUE = "Hypothesis input generation with a constructive oracle (expected pair list) and read-back round trip through neighbors()/find_links()"

CELLS = [0, 1, 2, -1, "", "x", None, [], [0], 0.0, float("nan"), object(), True, False]


def budget(tier):
    if tier == "quick":
        return dict(shards=16, examples=3000, time_s=50)
    return dict(shards=16, examples=70000, time_s=850)


def strategy(tier):
    prior = st.lists(st.tuples(st.integers(0, 5), st.integers(0, 5), st.integers(0, 5)), max_size=4)
    d = st.builds(
        lambda nv, rows, cls, prior, pu, itkind: {
            "t": "dict", "nv": nv, "rows": [[k % nv, [x % nv for x in vals]] for k, vals in rows], "cls": cls,
            "prior": [list(p) for p in prior], "prior_uni": [x % nv for x in pu], "itkind": itkind, "cache": bool(itkind & 1) ^ bool(cls & 1),
        },
        st.integers(1, 5),
        st.lists(st.tuples(st.integers(0, 4), st.lists(st.integers(0, 4), max_size=5)), max_size=5),
        st.integers(0, 12), prior, st.lists(st.integers(0, 4), max_size=3), st.integers(0, 3),
    )
    m = st.builds(
        lambda n, cells, cls, prior, bad, badpos, pu: {
            "t": "matrix", "n": n, "cells": _cells(n, cells),
            "cls": cls, "prior": [list(p) for p in prior], "bad": bad, "badpos": badpos, "prior_uni": [x % max(n, 1) for x in pu], "cache": bool(badpos & 1) ^ bool(cls & 2),
        },
        # sizes: small, and a few beyond the places where chunked / fast paths are usually put (65, 80, 257, 300)
        st.sampled_from([0, 1, 2, 3, 4, 5] * 25 + [65, 80, 257, 300]),
        st.lists(st.lists(st.integers(0, 13), max_size=5), max_size=5),
        st.integers(0, 12), prior, st.sampled_from([0, 0, 0, 1, 2, 3, 4, 5]), st.integers(0, 7), st.lists(st.integers(0, 4), max_size=3),
    )
    return st.one_of(d, m)


def _cells(n, cells):
    """n x n selector matrix from a generated pattern of <= 5 x 5: top-left corner; for big n also the bottom-right
    corner (mirrored) and the far ends of the first row / column, everything else 0."""
    m = [[c % len(CELLS) for c in row[:n]] + [0] * (n - len(row[:n])) for row in (cells[:n] + [[]] * (n - len(cells[:n])))]
    if n > 5:
        for i, row in enumerate(cells[:5]):
            for j, c in enumerate(row[:5]):
                m[n - 1 - i][n - 1 - j] = c % len(CELLS)
                if i == 0:
                    m[0][n - 1 - j] = c % len(CELLS)
                    m[n - 1 - j][0] = c % len(CELLS)
    return m


def snap(vs):
    return [([id(l) for l in v.links], [id(u) for u in v.universes]) for v in vs]


def _setup(nv, prior, prior_uni, universe_last=True):
    from edgegraph.structure import Universe, Vertex
    from eglib import classes as C

    vs = [C.make_vertex(i) for i in range(nv)]
    if universe_last and nv >= 2:
        vs[-1] = Universe(attributes={"i": nv - 1})
    outside = Vertex(attributes={"i": 99})
    for a, b, c in prior:
        x = vs[a % nv]
        y = outside if b == 5 else vs[b % nv]
        C.LINK_CLASSES[c % 6](x, y)
    if (len(prior_uni) + len(prior)) % 2:
        # the prior universe lives under restrictive laws (the statement makes no exception for them)
        from edgegraph.structure.universe import UniverseLaws

        pu = Universe(laws=UniverseLaws(cycles=False, multipath=False, mixed_links=False))
    else:
        pu = Universe()
    for k in prior_uni:
        pu.add_vertex(vs[k % nv])
    from edgegraph.traversal import helpers

    for v in vs:     # warm the neighbor caches (no effect with caching off)
        for d in (0, 1, 2):
            h.neighbors(v, d, helpers.LNK_UNKNOWN_NEIGHBOR)
    return vs, outside, pu


def _check_built(u, vs, before, order, pairs, cls, known_universes):
    """Common oracle: `order` = expected member indices, `pairs` = expected (v1, v2) index pairs in creation order."""
    from edgegraph.structure import Universe
    from edgegraph.traversal import helpers
    from eglib import classes as C

    want = C.LINK_CLASSES[cls]
    require(type(u) is Universe, "result-not-a-universe", type(u).__name__)
    require(all(u is not k for k in known_universes) and all(u is not v for v in vs), "result-not-new", "the returned universe existed before")
    vi = {id(v): i for i, v in enumerate(vs)}
    got_members = [vi.get(id(x), "?") for x in u.vertices]
    require(got_members == order, "member-order", f"universe members {got_members}, expected first-mention order {order}")
    new = []
    for i, v in enumerate(vs):
        pre_l, pre_u = before[i]
        lk = [id(l) for l in v.links]
        require(lk[: len(pre_l)] == pre_l, "prior-links-disturbed", f"vertex {i}: links prefix changed")
        un = [id(x) for x in v.universes]
        require(un[: len(pre_u)] == pre_u, "prior-universes-disturbed", f"vertex {i}")
        require(un[len(pre_u):] == ([id(u)] if i in order else []), "universe-membership", f"vertex {i}: new universes {len(un) - len(pre_u)}")
        for l in v.links[len(pre_l):]:
            if all(l is not y for y in new):
                new.append(l)
    require(len(new) == len(pairs), "link-count", f"{len(new)} new links for {len(pairs)} listed pairs")
    for l in new:
        require(type(l) is want, "link-type", f"new link has class {type(l).__name__}, requested {want.__name__}")
        require(len(l.vertices) == 2, "link-ends", "new link does not have two ends")
    got = collections.Counter((vi.get(id(l.v1)), vi.get(id(l.v2))) for l in new)
    exp = collections.Counter(pairs)
    require(got == exp, "link-orientation", f"new links {sorted(got.elements())}, expected {sorted(exp.elements())}")
    # creation order = input order: every vertex's new links, in order, are the pairs that touch it, in input order
    for i, v in enumerate(vs):
        suffix = [(vi.get(id(l.v1)), vi.get(id(l.v2))) for l in v.links[len(before[i][0]):]]
        exps = [p for p in pairs if i in p]
        require(suffix == exps, "creation-order", f"vertex {i}: new links in order {suffix}, input order {exps}")
    # read-back of the WHOLE neighbourhood with plain (cacheable) queries: prior links + new links, in v.links order
    G_all = None
    from eglib import graphs as _g

    all_links = []
    for v in vs:
        for l in v.links:
            if all(l is not y for y in all_links):
                all_links.append(l)
    pool = list(vs) + [x for l in all_links for x in l.vertices if x is not None and all(x is not y for y in vs)]
    uniq = []
    for x in pool:
        if all(x is not y for y in uniq):
            uniq.append(x)
    G_all = _g.abstract(uniq, all_links)
    from eglib.model import ref_neighbors as _rn

    pi = {id(x): k for k, x in enumerate(uniq)}
    for i, v in enumerate(vs):
        for d in (0, 1, 2):
            got = [pi.get(id(x), "?") for x in h.neighbors(v, d, helpers.LNK_UNKNOWN_NEIGHBOR)]
            exp = _rn(G_all, pi[id(v)], d, 1, None)
            require(got == exp, "readback-neighbors", f"vertex {i} direction {d}: plain neighbors() gives {got}, the links say {exp}")
        # ... and with the DEFAULT arguments (FORWARD, LNK_UNKNOWN_ERROR), which is what most callers use
        from eglib.model import RefNotImplemented as _RNI

        try:
            exp = _rn(G_all, pi[id(v)], 0, 2, None)
        except _RNI:
            exp = "NIE"
        try:
            got = [pi.get(id(x), "?") for x in h.neighbors(v)]
        except NotImplementedError:
            got = "NIE"
        require(got == exp, "readback-neighbors", f"vertex {i}: neighbors(v) with default arguments gives {got}, the links say {exp}")
    # read-back through the query API (new links only: filter on identity)
    newids = {id(l) for l in new}
    kind = C.KIND[want]
    for i, v in enumerate(vs):
        nb = [vi.get(id(x)) for x in h.neighbors(v, helpers.DIR_SENS_FORWARD, helpers.LNK_UNKNOWN_NEIGHBOR, lambda e, o: id(e) in newids)]
        if kind == "D":
            expn = [b for a, b in pairs if a == i]
        else:
            expn = [(b if a == i else a) for a, b in pairs if i in (a, b)]
        require(nb == expn, "readback-neighbors", f"vertex {i}: neighbors {nb}, adjacency says {expn}")
        for j, w in enumerate(vs):
            n = len(h.find_links(v, w, True, helpers.LNK_UNKNOWN_NEIGHBOR, lambda e: id(e) in newids))
            if kind == "D":
                m = sum(1 for p in pairs if p == (i, j))
            else:
                m = sum(1 for p in pairs if p == (i, j) or p == (j, i)) if i != j else sum(1 for p in pairs if p == (i, i))
            require(n == m, "readback-find_links", f"find_links(v{i}, v{j}) has {n} links, adjacency multiplicity {m}")


def check_dict(case):
    from edgegraph.builder import adjlist
    from eglib import classes as C

    nv = case["nv"]
    vs, outside, pu = _setup(nv, case["prior"], case["prior_uni"])
    before = snap(vs)
    adj = {}
    for k, vals in case["rows"]:
        adj[k] = list(vals)          # later duplicates of a key replace the row, as in a dict literal
    it = case["itkind"]
    conv = [list, tuple, iter, lambda r: (x for x in r)][it]
    inp = {vs[k]: conv([vs[x] for x in vals]) for k, vals in adj.items()}
    try:
        if case["cls"] == 1 and len(case["rows"]) % 2:
            u = adjlist.load_adj_dict(inp)          # linktype omitted: the documented default is UnDirectedEdge
        else:
            u = adjlist.load_adj_dict(inp, C.LINK_CLASSES[case["cls"]])
    except Exception as e:  # noqa
        raise Violation("load_adj_dict-raised", repr(e))
    order = []
    pairs = []
    for k, vals in adj.items():
        for x in [k] + vals:
            if x not in order:
                order.append(x)
        pairs += [(k, x) for x in vals]
    _check_built(u, vs, before, order, pairs, case["cls"], [pu] + [v for v in vs if hasattr(v, "vertices")])
    if not inp:
        # an empty description: each call still returns a NEW universe of its own
        from edgegraph.structure import Vertex

        u.add_vertex(Vertex())
        u_again = adjlist.load_adj_dict({}, C.LINK_CLASSES[case["cls"]])
        require(u_again is not u and len(u_again.vertices) == 0, "returned-object-not-fresh", "load_adj_dict({}) returned the universe of an earlier call (already populated by its caller)")
    require(snap([outside])[0][1] == [], "outside-vertex-touched", "a vertex not named in the input joined a universe")
    selfe = any(a == b for a, b in pairs)
    rep = len(set(pairs)) < len(pairs)
    nt = len(pairs) >= 3 and (selfe or rep or bool(case["prior"]))
    classes = ["dict", f"rows-as-{['list', 'tuple', 'iterator', 'generator'][it]}", "cls-" + C.LINK_NAMES[case["cls"]]]
    if selfe:
        classes.append("self-entry")
    if rep:
        classes.append("repeated-entry")
    if any(not vals for vals in adj.values()):
        classes.append("empty-row")
    return dict(nt=nt, classes=classes)


def check_matrix(case):
    from edgegraph.builder import adjmatrix
    from eglib import classes as C

    n = case["n"]
    vs, outside, pu = _setup(max(n, 1), case["prior"], case["prior_uni"], universe_last=(n >= 2))
    vs = vs[:n]
    before = snap(vs)
    rows = [[CELLS[c] for c in row] for row in case["cells"]]
    side = list(vs)
    as_tuples = bool(case["badpos"] & 4) and not (n > 0 and case["badpos"] % 2)
    bad = case["bad"]
    pos = case["badpos"]
    label = "ok"
    if bad == 1 and n > 0:
        rows[pos % n].append(1)
        label = "row-too-long"
    elif bad == 2:
        from edgegraph.structure import Vertex

        side = side + [Vertex()]
        label = "side-too-long"
    elif bad == 3 and n > 0:
        rows.append([1] * n)
        label = "extra-row"
    elif bad == 4 and n > 0:
        side = side[:-1]
        label = "side-too-short"
    elif bad == 5 and n >= 2:
        # one row too long and the next one too short: the number of cells is still n * n
        rows[pos % n].append(1)
        rows[(pos + 1) % n].pop()
        label = "ragged-rows-with-n*n-cells"
    if label != "ok":
        extra = [x for x in side if all(x is not v for v in vs)]
        bext = snap(extra)
        if case["badpos"] & 4:
            rows, side = tuple(tuple(r) for r in rows), tuple(side)     # the same input written with tuples
        try:
            adjmatrix.load_adj_matrix(rows, side, C.LINK_CLASSES[case["cls"]])
        except ValueError:
            pass
        except Exception as e:  # noqa
            raise Violation("wrong-exception-type", f"{label}: {e!r}")
        else:
            raise Violation("bad-input-accepted", f"{label}: load_adj_matrix returned")
        require(snap(vs) == before and snap(extra) == bext, "bad-input-touched-graph", f"{label}: a vertex gained a link or a universe although ValueError was raised")
        return dict(nt=True, classes=["matrix-error:" + label])
    try:
        if as_tuples:
            u = adjmatrix.load_adj_matrix(tuple(tuple(r) for r in rows), tuple(side), C.LINK_CLASSES[case["cls"]])
        else:
            if case["cls"] == 0 and n % 2:
                u = adjmatrix.load_adj_matrix(rows, side)       # linktype omitted: the documented default is DirectedEdge
            else:
                u = adjmatrix.load_adj_matrix(rows, side, C.LINK_CLASSES[case["cls"]])
    except Exception as e:  # noqa
        raise Violation("load_adj_matrix-raised", repr(e))
    pairs = [(i, j) for i in range(n) for j in range(n) if rows[i][j]]
    _check_built(u, vs, before, list(range(n)), pairs, case["cls"], [pu] + [v for v in vs if hasattr(v, "vertices")])
    exotic = any(rows[i][j] not in (0, 1, True, False) and not isinstance(rows[i][j], bool) for i in range(n) for j in range(n))
    # history: the same matrix object, edited in place into a non-square one (row count unchanged), loaded again
    if n > 0 and case["badpos"] % 2:
        before2 = snap(vs)
        if case["badpos"] % 4 == 1:
            rows[pos % n].append(1)
        else:
            rows[pos % n].pop()
        try:
            adjmatrix.load_adj_matrix(rows, side, C.LINK_CLASSES[case["cls"]])
        except ValueError:
            pass
        except Exception as e:  # noqa
            raise Violation("wrong-exception-type", f"reload of an edited (now non-square) matrix: {e!r}")
        else:
            raise Violation("bad-input-accepted", "reload of the same matrix object after a row was edited in place returned normally")
        require(snap(vs) == before2, "bad-input-touched-graph", "reload of an edited matrix: a vertex gained a link or a universe although ValueError was raised")
    selfe = any(a == b for a, b in pairs)
    nt = len(pairs) >= 3 and (selfe or bool(case["prior"]))
    classes = ["matrix", "cls-" + C.LINK_NAMES[case["cls"]], f"n={n}"]
    if selfe:
        classes.append("self-entry")
    if exotic:
        classes.append("exotic-cell-values")
    if n > 0 and case["badpos"] % 2:
        classes.append("reloaded-after-in-place-edit")
    return dict(nt=nt, classes=classes)


def check_case(case):
    from eglib import trav

    # builders must leave the neighbor cache consistent too: half of the cases run with caching on, and the
    # vertices' neighbours are queried BEFORE the build so that warm entries exist
    with trav.caching(case.get("cache")):
        if case["t"] == "dict":
            return check_dict(case)
        return check_matrix(case)
