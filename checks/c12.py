"""
C12 — containers handed out or taken in are snapshots; mutating them changes nothing.

Case: {"g": graph desc, "uni": [member idx...], "cache": bool, "pair": [a, b]}
For the world of a case the whole (exchange point x mutation) matrix is enumerated.
"""
from eglib import h
from hypothesis import strategies as st

from eglib import battery, graphs
from eglib.driver import Violation

ID = "C12"
LEVEL = "exploration"
DESIGN_REF = "DESIGN.md §3 C12"
RULE = (
    "Hypothesis worlds (multigraphs <= 5 vertices / <= 8 links of 6-11 classes, vertex classes incl. one with neighbor caching switched on for the subclass only, a universe with a law set carrying an "
    "edge whitelist) x caching on/off.  For each world the complete matrix (exchange point x mutation) is "
    "enumerated.  Exchange points OUT: Vertex.links, Link.vertices, Universe.vertices, BaseObject.universes, "
    "UniverseLaws.edge_whitelist (outer and inner mapping), neighbors() (cache-filling call right after an invalidation, and cache hit), find_links(), "
    "bft / dft_recursive / dft_iterative results, unlink(destroy=False) result.  Exchange points IN (with container sizes 0, 1 and more): Vertex(links=, "
    "universes=, attributes=), Link subclass(vertices=), Universe(vertices=) (also a list of 257 / 300 distinct vertices), Link(vertices=) with 260 entries, UniverseLaws(edge_whitelist=) outer "
    "and inner dict (also handed over as a MappingProxyType view of a dict the caller keeps), load_adj_dict input and rows, load_adj_matrix matrix, rows and side array.  Mutations: "
    "append, extend, insert, remove/pop, clear, sort, reverse, item assignment/deletion, add/discard/update as the "
    "type permits (TypeError/AttributeError = immutable, accepted).  After every mutation the structural snapshot "
    "and the full query battery must equal their values before it.  Mutations include the in-place operators (|=, &=, +=, *=).  Every accessor is also read TWICE in a row with nothing in between: mutating the first result may not change the second.  Non-trivial = the world has >= 2 links and at "
    "least one mutation of an exchanged container succeeded; distinct = distinct (world, caching) case; the "
    "evidence classes count (exchange point, outcome) pairs."
)
ASSUMPTIONS = [
    "only the container itself is mutated (not the graph objects inside it)",
    "an immutable container (tuple, MappingProxyType) satisfies the property by raising",
]
LEVEL_TEXT = "Exploration over worlds; per world the exchange-point x mutation matrix (about 30 x 13) is exhaustive, each followed by a full re-observation (snapshot + query battery) with caching on and off."
LEVEL_NOTE = "Trusts the snapshot/battery observer. Exchange points are those named in the statement; a new accessor added to the library later would have to be added to the table. Search, not proof."
TECHNIQUE = "metamorphic PBT: mutate every exchanged container in every way, re-observe, compare (exhaustive matrix per generated world)"


def budget(tier):
    if tier == "quick":
        return dict(shards=16, examples=30, time_s=55)
    return dict(shards=16, examples=600, time_s=850)


def strategy(tier):
    return st.builds(
        lambda g, uni, cache, a, b: {"g": g, "uni": sorted({x % g["nv"] for x in uni}) or [0], "cache": cache, "pair": [a % g["nv"], b % g["nv"]]},
        st.one_of(graphs.graph_descs(max_v=5, max_e=8, min_v=2, min_e=1), graphs.graph_descs(max_v=5, max_e=8, min_v=2, min_e=1, wide=True, classes=12),
                  # every vertex of a class that caches for itself (whatever the program-wide flag says)
                  graphs.graph_descs(max_v=4, max_e=6, min_v=2, min_e=2, wide=True, classes=4).map(lambda g: dict(g, vcls=[7]))),
        st.lists(st.integers(0, 4), min_size=1, max_size=5),
        st.booleans(),
        st.integers(0, 4),
        st.integers(0, 4),
    )


def _nm(x):
    """Name of a class - or the repr of whatever foreign object turned up in its place (observers must not choke on
    the junk a leaked mutation left behind: that is exactly what they are there to report)."""
    return getattr(x, "__name__", None) or repr(x)


class Junk:
    """A value that is never part of the graph (hashable, orderable)."""

    def __lt__(self, other):
        return False

    def __repr__(self):
        return "<junk>"


def mutations(c, junk):
    return [
        ("append", lambda: c.append(junk)),
        ("extend", lambda: c.extend([junk, junk])),
        ("insert", lambda: c.insert(0, junk)),
        ("pop", lambda: c.pop()),
        ("remove-first", lambda: c.remove(next(iter(c)))),
        ("clear", lambda: c.clear()),
        ("reverse", lambda: c.reverse()),
        ("sort", lambda: c.sort(key=id, reverse=True)),
        ("setitem0", lambda: c.__setitem__(0, junk)),
        ("delitem0", lambda: c.__delitem__(0)),
        ("add", lambda: c.add(junk)),
        ("discard-first", lambda: c.discard(next(iter(c)))),
        ("update", lambda: c.update({junk: junk})),
        ("setitem-key", lambda: c.__setitem__(next(iter(c)), junk)),
        ("delitem-key", lambda: c.__delitem__(next(iter(c)))),
        ("iadd", lambda: c.__iadd__([junk])),
        ("ior", lambda: c.__ior__({junk: junk})),           # the in-place merge  m |= {...}  of mappings and sets
        ("ior-set", lambda: c.__ior__({junk})),
        ("iand", lambda: c.__iand__(set())),
        ("imul", lambda: c.__imul__(2)),
    ]


IMMUTABLE_ERRORS = (TypeError, AttributeError)
EMPTY_ERRORS = (IndexError, KeyError, StopIteration, ValueError)


class WorldX:
    def __init__(self, case):
        from edgegraph.structure import DirectedEdge, Universe, Vertex
        from edgegraph.structure.universe import UniverseLaws

        self.vs, self.ls = graphs.build(case["g"])
        self.wl_in = {Vertex: {Vertex: DirectedEdge, Universe: DirectedEdge}, Universe: {Vertex: DirectedEdge}}
        self.laws = UniverseLaws(edge_whitelist=self.wl_in)
        self.uni = Universe(vertices=[self.vs[m] for m in case["uni"]], laws=self.laws)
        self.a, self.b = case["pair"]
        self.empty = Universe()

    def observe(self):
        from edgegraph.structure import Universe

        vi = {id(v): i for i, v in enumerate(self.vs)}
        li = {id(l): i for i, l in enumerate(self.ls)}
        snap = [
            [[li.get(id(l), "?") for l in v.links] for v in self.vs],
            [[vi.get(id(x), "?") for x in l.vertices] for l in self.ls],
            [vi.get(id(x), "?") for x in self.uni.vertices],
            [[1 if u is self.uni else "?" for u in v.universes] for v in self.vs],
            None if self.uni.laws.edge_whitelist is None else sorted((_nm(k), sorted((_nm(a), _nm(b)) for a, b in v.items()) if hasattr(v, "items") else repr(v)) for k, v in self.uni.laws.edge_whitelist.items()),
        ]
        from edgegraph.traversal import breadthfirst as _B

        snap.append(list(_B.bft(Universe(), self.vs[0])))      # any empty universe: always []
        return snap, battery.evaluate(self.vs, self.ls, [self.uni], level=2, searches=False)


def raw_neighbors(v, d=0, u=2, f=None):
    """The library's own return value (C12 mutates it itself), direction / handling constants translated by name."""
    from edgegraph.traversal import helpers

    return helpers.neighbors(v, h.D(d), h.U(u), f)


def raw_find_links(a, b, ds=True, u=2, f=None):
    from edgegraph.traversal import helpers

    return helpers.find_links(a, b, ds, h.U(u), f)


def out_points(W):
    from edgegraph.traversal import breadthfirst as B
    from edgegraph.traversal import depthfirst as D
    from edgegraph.traversal import helpers

    a, b = W.vs[W.a], W.vs[W.b]
    pts = [
        ("Vertex.links", lambda: a.links),
        ("BaseObject.universes", lambda: a.universes),
        ("Universe.vertices", lambda: W.uni.vertices),
        ("edge_whitelist", lambda: W.laws.edge_whitelist),
        ("edge_whitelist.inner", lambda: next(iter(W.laws.edge_whitelist.values()))),
        ("neighbors()", lambda: raw_neighbors(a, 1, 1)),
        # a genuine cache MISS: invalidate a's cache by a structural no-op (re-adding a link it already has),
        # then query - the list returned by the cache-FILLING call must not be the cached object either
        ("neighbors()after-invalidation", lambda: (a.add_to_link(a.links[0]) if a.links else None, raw_neighbors(a, 1, 1))[1]),
        ("neighbors(filter)after-invalidation", lambda: (b.add_to_link(b.links[-1]) if b.links else None, raw_neighbors(b, 2, 1, battery.f_accept))[1]),
        ("neighbors()second-call", lambda: (raw_neighbors(a, 1, 1), raw_neighbors(a, 1, 1))[1]),
        ("neighbors(filter)", lambda: raw_neighbors(a, 0, 1, battery.f_accept)),
        ("neighbors(filter)second-call", lambda: (raw_neighbors(b, 2, 1, battery.f_accept), raw_neighbors(b, 2, 1, battery.f_accept))[1]),
        ("find_links()", lambda: raw_find_links(a, b, False, 1)),
        ("bft()", lambda: B.bft(None, a, **h.kw(1, 1))),
        ("dft_recursive()", lambda: D.dft_recursive(None, a, **h.kw(1, 1))),
        ("dft_iterative()", lambda: D.dft_iterative(None, a, **h.kw(1, 1))),
        ("bft(uni)", lambda: B.bft(W.uni, W.uni.vertices[0], **h.kw(1, 1))),
        ("bft(empty-universe)", lambda: B.bft(W.empty, a)),
    ]
    if W.ls:
        pts.insert(1, ("Link.vertices", lambda: W.ls[0].vertices))
    return pts


def check_case(case):
    from edgegraph.structure import Vertex

    Vertex.NEIGHBOR_CACHING = bool(case["cache"])
    classes = {}
    succeeded = 0
    try:
        W = WorldX(case)
        base = W.observe()
        junk = Junk()

        def verify(where):
            now = W.observe()
            if now[0] != base[0]:
                raise Violation(f"container-mutation-leaked:{where.split(' ')[0]}", f"{where} (caching={case['cache']}): structure changed from {base[0]} to {now[0]}")
            d = battery.first_difference(base[1], now[1])
            if d:
                raise Violation(f"container-mutation-leaked:{where.split(' ')[0]}", f"{where} (caching={case['cache']}): later query changed: {d}")

        # ---------------- containers handed OUT
        for name, get in out_points(W):
            nmut = len(mutations([], junk))
            for mi in range(nmut):
                try:
                    c = get()
                except Exception as e:  # noqa
                    raise Violation("accessor-raised", f"{name}: {e!r}")
                mname, mut = mutations(c, junk)[mi]
                try:
                    mut()
                    outcome = "mutated"
                    succeeded += 1
                except IMMUTABLE_ERRORS:
                    outcome = "immutable"
                except EMPTY_ERRORS:
                    outcome = "empty"
                classes[f"out:{name}:{outcome}"] = classes.get(f"out:{name}:{outcome}", 0) + 1
                verify(f"{name} then .{mname}")
            # two reads with NOTHING in between: the two containers must be independent of each other
            if not name.endswith("after-invalidation"):
                c1, c2 = get(), get()
                if isinstance(c2, (list, set, dict)):
                    ident = lambda c: [(id(k), id(v)) for k, v in c.items()] if isinstance(c, dict) else [id(x) for x in c]
                    before2 = ident(c2)
                    for mname, mut in mutations(c1, junk):
                        try:
                            mut()
                        except IMMUTABLE_ERRORS + EMPTY_ERRORS:
                            continue
                        after2 = ident(c2)
                        if after2 != before2:
                            raise Violation(f"two-reads-share-one-container:{name}", f"{name} read twice in a row: .{mname} on the first result changed the second one (caching={case['cache']})")
                    verify(f"{name} read twice, first result mutated")
        # ---------------- containers taken IN
        succeeded += _in_points(W, case, junk, verify, classes)
        # ---------------- unlink(destroy=False) result (changes the world: last, on its own baseline)
        from edgegraph.builder import explicit

        res = explicit.unlink(W.vs[W.a], W.vs[W.b], destroy=False)
        base = W.observe()
        for mi in range(len(mutations([], junk))):
            c = set(res) if mi else res
            mname, mut = mutations(res, junk)[mi]
            try:
                mut()
                succeeded += 1
            except IMMUTABLE_ERRORS + EMPTY_ERRORS:
                pass
            verify(f"unlink(destroy=False)result then .{mname}")
    finally:
        Vertex.NEIGHBOR_CACHING = False
    nt = len(W.ls) >= 2 and succeeded > 0
    return dict(nt=nt, classes=sorted(k for k in classes))


def _in_points(W, case, junk, verify, classes):
    """Containers passed to constructors / builders, mutated afterwards."""
    from edgegraph.builder import adjlist, adjmatrix
    from edgegraph.structure import DirectedEdge, Link, Universe, Vertex
    from edgegraph.structure.universe import UniverseLaws

    class PlainLink(Link):
        pass

    succeeded = 0
    vs = W.vs
    nmut = len(mutations([], junk))

    def run(name, make):
        nonlocal succeeded
        for mi in range(nmut):
            containers, observe_new = make()
            before_new = observe_new()
            for ci, c in enumerate(containers):
                mname, mut = mutations(c, junk)[mi]
                try:
                    mut()
                    outcome = "mutated"
                    succeeded += 1
                except IMMUTABLE_ERRORS:
                    outcome = "immutable"
                except EMPTY_ERRORS:
                    outcome = "empty"
                classes[f"in:{name}[{ci}]:{outcome}"] = 1
                after_new = observe_new()
                if after_new != before_new:
                    raise Violation(f"input-container-aliased:{name}", f"{name}: mutating input container #{ci} with .{mname} changed the built object from {before_new} to {after_new}")
            yield_cleanup()

    cleanup = []

    def yield_cleanup():
        while cleanup:
            cleanup.pop()()

    vi = lambda seq: [next((i for i, v in enumerate(vs) if v is x), "?") for x in seq]

    def mk_vertex():
        links = list(W.ls[: [2, 1, 0][(W.a + 2 * W.b) % 3]])
        unis = [W.uni]
        attrs = {"p": 1, "q": [2]}
        v = Vertex(links=links, universes=unis, attributes=attrs)
        # detach again afterwards so the world returns to its baseline
        def undo():
            for l in list(v.links):
                l.unlink_from(v)
            W.uni.remove_vertex(v)
        cleanup.append(undo)
        return [links, unis, attrs], lambda: ([id(l) for l in v.links], [id(u) for u in v.universes], sorted(k for k in vars(v) if not k.startswith("_")), getattr(v, "p", None))

    def mk_link():
        ends = [vs[W.a], vs[W.b]][: [2, 1, 2][(W.a * 2 + W.b) % 3]]
        l = PlainLink(vertices=ends)
        def undo():
            for x in list(l.vertices):
                l.unlink_from(x)
        cleanup.append(undo)
        return [ends], lambda: vi(l.vertices)

    def mk_universe():
        members = list(vs[: [3, 1, 0, 2][(W.a + W.b) % 4]])    # also the degenerate sizes 0 and 1
        u = Universe(vertices=members)
        def undo():
            for x in list(u.vertices):
                u.remove_vertex(x)
        cleanup.append(undo)
        return [members], lambda: vi(u.vertices)

    def mk_universe_big():
        # a LARGE list (beyond the sizes at which bulk-loading shortcuts are usually taken), all entries distinct
        members = [Vertex(attributes={"i": 9000 + k}) for k in range([257, 300][(W.a + W.b) % 2])] + list(vs[:2])
        u = Universe(vertices=members)
        def undo():
            for x in list(u.vertices):
                u.remove_vertex(x)
        cleanup.append(undo)
        return [members], lambda: [id(x) for x in u.vertices]

    def mk_link_big():
        ends = [Vertex(attributes={"i": 9500 + k}) for k in range(260)] + [vs[W.a]]
        l = PlainLink(vertices=ends)
        def undo():
            for x in list(l.vertices):
                l.unlink_from(x)
        cleanup.append(undo)
        return [ends], lambda: [id(x) for x in l.vertices]

    def mk_laws():
        import types

        inner = {Vertex: DirectedEdge}
        # the inner mapping is handed over as a dict or as a read-only VIEW of a dict the caller keeps
        import collections

        base_layer = {Universe: DirectedEdge}
        given = [inner, types.MappingProxyType(inner), collections.ChainMap(inner, base_layer)][(W.a + W.b) % 3]
        outer = {Vertex: given, Universe: {Vertex: DirectedEdge}}
        laws = UniverseLaws(edge_whitelist=outer)
        return [outer, inner, base_layer], lambda: sorted((_nm(k), sorted((_nm(a), _nm(b)) for a, b in v.items()) if hasattr(v, "items") else repr(v)) for k, v in laws.edge_whitelist.items())

    def mk_adjdict():
        fresh = [Vertex(attributes={"i": 100 + i}) for i in range(3)]
        row0, row1 = [[fresh[1], fresh[2]], [fresh[1]], []][(W.a + W.b) % 3], [fresh[0]]
        adj = {fresh[0]: row0, fresh[1]: row1}
        u = adjlist.load_adj_dict(adj)
        return [adj, row0, row1], lambda: ([getattr(x, 'i', '?') for x in u.vertices], [[(getattr(l.v1, 'i', '?'), getattr(l.v2, 'i', '?')) for l in v.links] for v in fresh])

    def mk_adjmatrix():
        fresh = [Vertex(attributes={"i": 200 + i}) for i in range(3)]
        r0, r1, r2 = [0, 1, 1], [0, 0, 1], [1, 0, 0]
        matrix = [r0, r1, r2]
        side = list(fresh)
        u = adjmatrix.load_adj_matrix(matrix, side)
        return [matrix, r0, side], lambda: ([getattr(x, 'i', '?') for x in u.vertices], [[(getattr(l.v1, 'i', '?'), getattr(l.v2, 'i', '?')) for l in v.links] for v in fresh])

    for name, mk in (("Vertex(links,universes,attributes)", mk_vertex), ("Link(vertices)", mk_link), ("Universe(vertices)", mk_universe),
                     ("Universe(vertices: 257+ entries)", mk_universe_big), ("Link(vertices: 260 entries)", mk_link_big),
                     ("UniverseLaws(edge_whitelist)", mk_laws), ("load_adj_dict", mk_adjdict), ("load_adj_matrix", mk_adjmatrix)):
        run(name, mk)
        verify(f"{name} input mutated")
    return succeeded
