"""
C01 — vertex–link association is symmetric and duplicate-free after every history.

Case: {"nv": 2..5, "nuni": 0..1, "ops": [[name, i, j, k], ...]}   (see eglib/world.py)
"""
import itertools

from hypothesis import strategies as st

from eglib.driver import Violation, sharded
from eglib.world import World

ID = "C01"
LEVEL = "exploration"
DESIGN_REF = "DESIGN.md §3 C01"
RULE = (
    "Histories over a pool of 2-5 vertices (Vertex, subclasses, a Universe used as a vertex) of: edge "
    "constructors of 6 link classes with ends drawn from pool+None (P(same vertex at both ends) is high "
    "because pools are tiny), v1=/v2= with the new end equal to the old end / the other end / a third vertex / "
    "None, link_directed/undirected/from_to(dontdup), unlink(a,b,destroy) incl. a is b, Vertex.add_to_link/"
    "remove_from_link, Link.add_vertex/unlink_from (incl. None, already-listed vertices), Vertex(links=[..]), bulk creation of 7-33 parallel links (per-vertex size thresholds), toggles of Vertex.NEIGHBOR_CACHING in between, and the adjacency builders load_adj_dict / load_adj_matrix applied to existing vertices.  "
    "Bounded-exhaustive for all histories up to the stated length over 2 vertices+None, Hypothesis beyond.  "
    "After EVERY call, returned or raised, for every vertex and link reachable from the pool: "
    "(L in v.links) == (v in L.vertices) by identity and v.links has no repeat.  In half of the calls the documented parameter names are used as keywords (v.add_to_link(link=l), l.add_vertex(new=v), u.add_vertex(vert=v), ...); one vertex class is iterable (a container-like vertex).  The accessors are read after every call or only after every 2nd / 3rd / 5th call / at the end (a caller that does several things before looking).  Also: 63-130 parallel links created at once, one link listing one vertex 40 / 600 times, and the enumerated threshold walks (see enum_scope).  End assignments are spelled lnk.v1 = x or lnk['v1'] = x; edges / vertices are also constructed with a user attribute named like a read-only accessor (vertices, links, universes, uid): whether that raises or not, the invariant must hold.  Non-trivial = >= 3 "
    "state-changing calls and >= 1 aliasing event (self-loop made or re-pointed, end set to its own old/other "
    "value, vertex listed twice on a link, call on a link with != 2 ends, a call that raised); distinct = "
    "distinct case value."
)
ASSUMPTIONS = [
    "arguments are well-typed (vertices / links / None where the API admits None); exceptions raised by such calls are tolerated and tallied, the invariant is still required afterwards",
    "vertex subclasses do not override __eq__/__hash__",
]
LEVEL_TEXT = (
    "Exploration with a bounded-exhaustive core: every history of <= 3 (quick) / <= 4 (thorough) calls from a "
    "70-op alphabet over 2 vertices + None and 2 link classes, plus Hypothesis histories up to 30/80 calls over "
    "larger pools and all 6 link classes; the invariant is evaluated after every call.  The known counterexamples "
    "are 2 calls long, so a complete small scope plus random depth is appropriate."
)
LEVEL_NOTE = (
    "Trusts the identity-based invariant evaluation through Vertex.links / Link.vertices only.  No exact-effect "
    "claim is made here (that is C03).  Search, not proof."
)
TECHNIQUE = "model-free stateful PBT: op-list histories (exhaustive small scope + Hypothesis) with an invariant after every call"

OPS_W = (
    ["edge"] * 5 + ["v1"] * 3 + ["v2"] * 3 + ["link"] * 2 + ["unlink"] * 2
    + ["al", "rl", "av", "uf"] * 2 + ["newv", "adj", "flag", "bulk"] + ["edge_attr", "newv_attr"] + ["bulk_big", "bulk_av"]
)

# coverage-guided extra engine (atheris): executions per fuzzer process, 16 processes
FUZZ = dict(quick=0, thorough=30000)


def budget(tier):
    if tier == "quick":
        return dict(shards=16, examples=2500, time_s=50)
    return dict(shards=16, examples=60000, time_s=850)


def strategy(tier):
    maxlen = 30 if tier == "quick" else 80
    op = st.tuples(st.sampled_from(OPS_W), st.integers(0, 11), st.integers(0, 11), st.integers(0, 47))
    return st.builds(
        lambda nv, nuni, ops, vcls, every: {"nv": nv, "nuni": nuni, "vcls": vcls, "dupuid": bool(vcls and vcls[0] == 0 and len(vcls) == 2), "ops": [list(o) for o in ops], **({"every": every} if every > 1 else {})},
        st.integers(2, 5),
        st.integers(0, 1),
        st.lists(op, max_size=maxlen),
        st.one_of(st.none(), st.lists(st.integers(0, 5), min_size=1, max_size=4)),
        st.sampled_from([1, 1, 1, 2, 3, 5, 1000]),
    )


def _alphabet():
    """Raw ops for the enumerated scope: nv = 2 (+ None), link classes D and U, <= 2..3 links."""
    E = (0, 1, 5)
    a = []
    for cls in (0, 1):
        for x in E:
            for y in E:
                a.append(("edge", x, y, cls))
    for nm in ("v1", "v2"):
        for l in (0, 1):
            for x in E:
                a.append((nm, l, x, 0))
    for dd in (0, 1):
        for x in (0, 1):
            for y in (0, 1):
                a.append(("link", x, y, dd))  # link_directed
    for x in (0, 1):
        for y in (0, 1):
            a.append(("unlink", x, y, 1))
    for nm in ("al", "rl"):
        for l in (0, 1):
            for x in (0, 1):
                a.append((nm, l, x, 0))
    for nm in ("av", "uf"):
        for l in (0, 1):
            for x in E:
                a.append((nm, l, x, 0))
    a.append(("newv", 0, 1, 1))
    a.append(("newv", 0, 0, 0))
    return a


def enumerate_cases(tier, shard=0, nshards=1):
    depth = 3 if tier == "quick" else 4
    alpha = _alphabet()

    def gen():
        for k in range(1, depth + 1):
            for seq in sharded(itertools.product(alpha, repeat=k), shard, nshards):
                yield {"nv": 2, "nuni": 0, "ops": [list(o) for o in seq]}
                if k < depth:
                    # same history over vertices whose truth value is False (__len__ == 0 / __bool__ False)
                    yield {"nv": 2, "nuni": 0, "vcls": [3, 2], "ops": [list(o) for o in seq]}

    walks = list(_threshold_walks())

    def gen_all():
        yield from sharded(iter(walks), shard, nshards)
        yield from gen()

    n = sum(len(alpha) ** k for k in range(1, depth + 1)) + sum(len(alpha) ** k for k in range(1, depth))
    return gen_all(), (
        f"{len(walks)} threshold walks (a vertex is grown to 63/64/65/70/128/130 links at once, one of its links - the first, second, "
        f"last-but-63 or last - is moved away or detached, the vertex is grown again by 7..33 links and the same link is brought back, by end assignment or add_to_link) and "
        f"all {n} histories (those of < {depth} calls are run a second time over falsy Vertex subclasses) of 1..{depth} calls from a {len(alpha)}-op alphabet (edge constructors of "
        f"DirectedEdge/UnDirectedEdge with ends in {{a,b,None}}^2, v1=/v2=, link_directed(dontdup), unlink, "
        f"add_to_link, remove_from_link, add_vertex, unlink_from, Vertex(links=)) over 2 vertices"
    )


def _threshold_walks():
    """Deterministic histories that walk a vertex's link count across the sizes where fast paths are usually placed."""
    for kK, K in enumerate([63, 64, 65, 70, 128, 130]):
        for X in (0, 1, K - 64, K - 1):
            if X < 0:
                continue
            for regrow in (0, 4):
                for how in (0, 1, 2):
                    away, back = [
                        (["v1", X, 2, 0], ["v1", X, 0, 0]),          # end assignment away and back
                        (["uf", X, 0, 0], ["al", X, 0, 0]),          # Link.unlink_from / Vertex.add_to_link
                        (["rl", X, 0, 0], ["av", X, 0, 0]),          # Vertex.remove_from_link / Link.add_vertex
                    ][how]
                    for extra_drop in (0, 2):
                        drops = [["v1", (X + 1 + d) % K, 2, 0] for d in range(extra_drop)]    # fall clearly below the size
                        yield {"nv": 3, "nuni": 0, "ops": [["bulk_big", 0, 1, kK], away] + drops + [["bulk", 0, 1, regrow], back, ["unlink", 0, 1, 1]]}


def _invariant(w, where):
    links = {id(l): l for l in w.ls}
    verts = {id(v): v for v in w.vs}
    for v in list(verts.values()):
        for l in v.links:
            links.setdefault(id(l), l)
    for l in list(links.values()):
        for x in l.vertices:
            if x is not None:
                verts.setdefault(id(x), x)
    vi, li = w.index_maps()
    for v in verts.values():
        vl = v.links
        ids = [id(l) for l in vl]
        if len(set(ids)) != len(ids):
            raise Violation("duplicate-link-listing", f"{where}: vertex {vi.get(id(v), '?')} lists a link twice: {[li.get(i, '?') for i in ids]}")
        idset = set(ids)
        for l in links.values():
            a = id(l) in idset
            b = any(x is v for x in l.vertices)
            if a != b:
                raise Violation(
                    "association-asymmetric",
                    f"{where}: link {li.get(id(l), '?')} in vertex {vi.get(id(v), '?')}.links = {a}, "
                    f"vertex in link.vertices = {b} (ends={[None if x is None else vi.get(id(x), '?') for x in l.vertices]})",
                )


def check_case(case):
    w = World(case["nv"], case.get("nuni", 0), case.get("vcls"), bool(case.get("dupuid")))
    w.keyword_spelling = True       # v.add_to_link(link=l), l.add_vertex(new=v), ... in half of the calls
    classes = set()
    if any(not bool(v) for v in w.vs):
        classes.add("falsy-vertex-in-pool")
    changing = 0
    alias = False
    raised = 0
    every = max(1, int(case.get("every", 1)))
    for step, op in enumerate(case["ops"]):
        r = w.resolve(op)
        if r is None:
            continue
        name = r[0]
        if name == "flag":
            # the invariant must hold whatever the neighbor-caching flag is and whenever it is toggled
            from edgegraph.structure import Vertex

            Vertex.NEIGHBOR_CACHING = bool(r[1] & 1)
            classes.add("caching-flag-toggled")
            continue
        if name == "bulk":
            classes.add("bulk-parallel-links(>=7)")
        # classify aliasing before the call
        if name == "edge" and r[2] is not None and r[2] == r[3]:
            alias = True
            classes.add("self-loop-constructed")
        if name == "edge" and (r[2] is None or r[3] is None):
            classes.add("half-assigned-edge")
        if name in ("v1", "v2", "av", "uf", "al", "rl"):
            ends = w.ls[r[1]].vertices
            if len(ends) != 2:
                alias = True
                classes.add("call-on-link-with-!=2-ends")
            tgt = w.v(r[2])
            if name in ("v1", "v2") and len(ends) == 2:
                pos = 0 if name == "v1" else 1
                if tgt is not None and tgt is ends[pos]:
                    alias = True
                    classes.add("end-set-to-own-old-value")
                elif tgt is not None and tgt is ends[1 - pos]:
                    alias = True
                    classes.add("end-set-to-other-end")
                if ends[0] is ends[1] and ends[0] is not None:
                    alias = True
                    classes.add("self-loop-repointed")
            if name in ("av", "al") and tgt is not None and any(x is tgt for x in ends):
                alias = True
                classes.add("vertex-listed-again")
            if name in ("uf", "rl") and tgt is not None and sum(1 for x in ends if x is tgt) >= 2:
                alias = True
                classes.add("remove-multiply-listed-vertex")
        if name == "unlink" and r[1] == r[2]:
            classes.add("unlink-self-pair")
        try:
            w.execute(r)
            changing += 1
        except RecursionError:
            raised += 1
            alias = True
            classes.add("raised-RecursionError")
        except Exception as e:  # noqa - tolerated by the statement, tallied
            raised += 1
            alias = True
            classes.add("raised-" + type(e).__name__)
        # the accessors are read after every call, or (case["every"] = n) only after every n-th one: a caller that does
        # several things before looking must see the same graph
        if step % every == every - 1:
            _invariant(w, f"after step {step} {list(r)}")
    _invariant(w, "at the end of the history")
    if every > 1:
        classes.add("accessors-read-every-%d-calls" % every)
    nt = changing >= 3 and alias
    return dict(nt=nt, classes=sorted(classes), enum_scope=(case["nv"] == 2 and len(case["ops"]) <= 3 and case.get("nuni", 0) == 0 and False))
