"""
C09 — find_links returns exactly the links neighbors() would follow from a to b.

Case: {"g": graph desc, "f": edge-filter spec | None, "unlink": [a, b]}
"""
from eglib import h
from hypothesis import strategies as st

from eglib import graphs
from eglib.driver import Violation, require, sharded
from eglib.model import ANY, ERROR, FORWARD, NEIGHBOR, NONNEIGHBOR, RefNotImplemented, ref_find_links

ID = "C09"
LEVEL = "exploration"
DESIGN_REF = "DESIGN.md §3 C09"
RULE = (
    "(a) exhaustive table: 1 or 2 links between one pair (a,b) or on one vertex (a,a), each of 6 link classes x both "
    "orientations, x 7 filters (two of them falsy callable objects); (b) Hypothesis multigraphs (<= 8 vertices, <= 14 links) x edge filters as truth "
    "tables.  Cases run with neighbor caching off or on (caches warmed first); in 3 of 5 cases the world is first queried, then copied (deepcopy / pickle / nrpickler) and the whole check incl. unlink runs on the copy.  For EVERY ordered pair incl. a is b x direction flag x 3 unknown-handling modes: find_links equals "
    "the reference set (NotImplementedError exactly when the reference raises); whenever both calls return its size "
    "equals neighbors(a, FORWARD|ANY, same handling, same filter).count(b); then unlink(a,b) on a generated pair: "
    "find_links(a,b,.) and find_links(b,a,.) are empty for all settings without raising and every other pair's "
    "answers are unchanged.  find_links(a, b) with the optional arguments omitted is compared with the documented defaults spelled out; every set received is scribbled on after reading.  A few worlds are scaled up: one vertex gets 65 / 70 further links to fresh leaves, optionally with a self-loop among them (then the pairs among the original vertices and four of the leaves are examined).  Non-trivial = some pair is joined by >= 2 links of different kind/direction, or a "
    "self-loop pair exists, or the filter splits a pair's links; distinct = distinct case value."
)
ASSUMPTIONS = [
    "links have both ends assigned; filters are pure functions of the link identity",
    "under LNK_UNKNOWN_ERROR a filter-rejected unknown-class link may either raise or be skipped",
]
LEVEL_TEXT = (
    "Exploration; exhaustive for scope '<= 2 links between one pair' (all classes, orientations, filters, flags), "
    "random multigraphs beyond, with a differential clause against neighbors() and a metamorphic unlink clause."
)
LEVEL_NOTE = "Trusts ref_find_links (eglib/model.py) and, for the count clause, nothing but the two library calls agreeing. Search, not proof."
TECHNIQUE = "exhaustive table + Hypothesis multigraphs vs. reference set; differential against neighbors(); metamorphic unlink"

UNKS = (NONNEIGHBOR, NEIGHBOR, ERROR)


def budget(tier):
    if tier == "quick":
        return dict(shards=16, examples=2000, time_s=50)
    return dict(shards=16, examples=35000, time_s=850)


def strategy(tier):
    return st.builds(
        lambda g, f, a, b, cache, cp: {"g": g, "f": f, "unlink": [a % g["nv"], b % g["nv"]], "cache": cache, "copy": cp},
        st.one_of(graphs.graph_descs(), graphs.graph_descs(classes=12, wide=True), graphs.with_scale(graphs.graph_descs(classes=12, wide=True, min_v=2, min_e=2), hubs=(65, 70), chains=(), rate=40), graphs.eq_graph_descs()),
        graphs.edge_filter_specs,
        st.integers(0, 7),
        st.integers(0, 7),
        st.booleans(),
        st.sampled_from([0, 0, 1, 2, 3]),
    )


_FILTERS = [None, {"ft": "edge", "mask": 0xFFFF}, {"ft": "edge", "mask": 0}, {"ft": "edge", "mask": 0b01}, {"ft": "edge", "mask": 0b10},
            {"ft": "edge", "mask": 0, "falsy": True}, {"ft": "edge", "mask": 0b10, "falsy": True}]


def enumerate_cases(tier, shard=0, nshards=1):
    pair_single = [[c, a, b] for c in range(6) for a, b in ((0, 1), (1, 0))]
    self_single = [[c, 0, 0] for c in range(6)]
    configs = []
    for singles, ul in ((pair_single, [0, 1]), (self_single, [0, 0])):
        configs += [([s], ul) for s in singles] + [([s, t], ul) for s in singles for t in singles]
    # mixed: one pair link and one self-loop on a
    configs += [([s, t], [0, 1]) for s in pair_single for t in self_single]

    def gen():
        for edges, ul in sharded(configs, shard, nshards):
            for f in _FILTERS:
                yield {"g": {"nv": 3, "vcls": None, "edges": edges + [[0, 1, 2], [1, 2, 0]], "reassign": []}, "f": f, "unlink": ul}
                yield {"g": {"nv": 3, "vcls": None, "edges": edges + [[0, 1, 2], [1, 2, 0]], "reassign": []}, "f": f, "unlink": ul, "cache": True}

    return gen(), (
        f"all {2 * len(configs) * len(_FILTERS)} rows (each with neighbor caching off and on, caches warmed by plain neighbors() calls first): 1-2 links between one pair / on one vertex, 6 classes x both "
        f"orientations, x 7 edge filters (plus two bystander links whose answers must survive the unlink)"
    )


def pair_indices(case, vs):
    """All vertices of a small world; for a scaled-up one the original vertices plus a few of the added ones."""
    if len(vs) <= 16:
        return list(range(len(vs)))
    nv0 = case["g"]["nv"]
    return list(range(nv0)) + [nv0, nv0 + 1, nv0 + 4, len(vs) - 1]


def fl_table(vs, ls, ff1, li, idx=None):
    from edgegraph.traversal import helpers

    t = {}
    idx = range(len(vs)) if idx is None else idx
    for a in idx:
        for b in idx:
            for ds in (True, False):
                for u in UNKS:
                    try:
                        t[(a, b, ds, u)] = frozenset(li.get(id(l), "?") for l in h.find_links(vs[a], vs[b], ds, u, ff1))
                    except NotImplementedError:
                        t[(a, b, ds, u)] = "NIE"
                    except graphs.FilterMisuse as e:
                        raise Violation("filter-misused", f"find_links(v{a}, v{b}, {ds}, {u}): {e}")
    return t


def check_case(case):
    from eglib import trav

    with trav.caching(case.get("cache")):
        return _check_case(case)


def _check_case(case):
    vs, ls = graphs.build(case["g"])
    if case["g"].get("eq"):
        return _check_world(case, vs, ls, query_only=False)
    if ls and sum(case["unlink"]) % 3 == 0:
        # query, re-assign a link end, then the full check on the changed graph (same objects)
        _check_world(case, vs, ls, query_only=True)
        k = case["unlink"][0] % len(ls)
        ls[k].v2 = vs[case["unlink"][1] % len(vs)]
    if not case.get("copy"):
        return _check_world(case, vs, ls, query_only=False)
    # query the world, copy it (deepcopy / pickle / nrpickler), then run the full check incl. unlink on the copy
    info = _check_world(case, vs, ls, query_only=True)
    vs2, ls2, _ = graphs.copied(vs, ls, None, case["copy"])
    info2 = _check_world(case, vs2, ls2, query_only=False)
    info2["classes"] = sorted(set(info2["classes"]) | {"checked-on-copy-of-queried-graph"})
    return info2


def _check_world(case, vs, ls, query_only):
    from edgegraph.builder import explicit
    from edgegraph.traversal import helpers

    G = graphs.abstract(vs, ls)
    vi = {id(v): i for i, v in enumerate(vs)}
    li = {id(l): i for i, l in enumerate(ls)}
    f = graphs.make_filter(case["f"])
    fz = graphs.is_falsy(case["f"])
    ff1 = graphs.real_filter1(f, li, falsy=fz, defaulted=bool(case.get("copy", 0) == 0 and case["unlink"][0] % 2))
    ff2 = None if f is None else (lambda e, v: f(li[id(e)]))
    classes = set()
    if fz:
        classes.add("falsy-callable-filter")
    nt = False
    n = len(vs)
    if case.get("cache"):
        classes.add("caching-on")
        # warm the neighbor caches with plain queries first (find_links must not be misled by them)
        for v in vs:
            for d in (0, 1, 2):
                try:
                    h.neighbors(v, d)
                    h.neighbors(v, d, 1)
                except NotImplementedError:
                    pass
    idx = pair_indices(case, vs)
    table = fl_table(vs, ls, ff1, li, idx)
    for a in idx:
        for b in idx:
            joining = [l for l in G.links_of[a] if (G.link[l][2] if G.link[l][1] == a else G.link[l][1]) == b]
            if len({(G.link[l][0], G.link[l][1]) for l in joining}) >= 2:
                nt = True
                classes.add("pair-joined-by-different-kinds/directions")
            if a == b and joining:
                nt = True
                classes.add("self-loop-pair")
            if f is not None and joining:
                acc = [f(l) for l in joining]
                if any(acc) and not all(acc):
                    nt = True
                    classes.add("filter-splits-pair")
            for ds in (True, False):
                for u in UNKS:
                    lenient = []
                    try:
                        exp = frozenset(ref_find_links(G, a, b, ds, u, f, lenient=lenient))
                    except RefNotImplemented:
                        exp = "NIE"
                    got = table[(a, b, ds, u)]
                    where = f"find_links(v{a}, v{b}, direction_sensitive={ds}, unknown={u}, filter={case['f']})"
                    if lenient and exp != "NIE" and got == "NIE":
                        classes.add("lenient")
                        continue
                    if got != exp:
                        raise Violation(
                            "find_links-mismatch" if "NIE" not in (got, exp) else ("missing-NotImplementedError" if exp == "NIE" else "unexpected-NotImplementedError"),
                            f"{where}: got {got if got == 'NIE' else sorted(got)}, expected {exp if exp == 'NIE' else sorted(exp)}; joining links {[(l,) + tuple(G.link[l]) for l in joining]}",
                        )
                    if got == "NIE":
                        continue
                    try:
                        nb = h.neighbors(vs[a], FORWARD if ds else ANY, u, ff2)
                    except NotImplementedError:
                        continue
                    cnt = sum(1 for x in nb if x is vs[b])
                    require(len(got) == cnt, "count-vs-neighbors", f"{where}: {len(got)} links but v{b} occurs {cnt}x in neighbors(v{a})")
    if case["f"] is None:
        # omitted arguments: the documented defaults are direction_sensitive=True, LNK_UNKNOWN_ERROR, no filter
        for a in idx:
            for b in idx:
                try:
                    got = frozenset(li.get(id(l), "?") for l in helpers.find_links(vs[a], vs[b]))
                except NotImplementedError:
                    got = "NIE"
                exp = table[(a, b, True, ERROR)]
                require(got == exp, "defaults-mismatch", f"find_links(v{a}, v{b}) with the remaining arguments omitted gives {got if got == 'NIE' else sorted(got)}; with the documented defaults spelled out {exp if exp == 'NIE' else sorted(exp)}")
        classes.add("arguments-omitted")
    if query_only:
        return dict(nt=nt, classes=sorted(classes))
    if case["g"].get("eq"):
        # unlink() relies on list membership (==): no promise for value-equal vertices
        classes.add("value-equal-vertices")
        return dict(nt=nt, classes=sorted(classes))
    # metamorphic: unlink a pair
    a, b = case["unlink"]
    try:
        explicit.unlink(vs[a], vs[b])
    except Exception as e:  # noqa
        raise Violation("unlink-raised", f"unlink(v{a}, v{b}): {e!r}")
    after = fl_table(vs, ls, ff1, li, idx)
    for (x, y, ds, u), got in after.items():
        if {x, y} == {a, b}:
            require(got != "NIE", "find_links-raises-after-unlink", f"find_links(v{x}, v{y}, {ds}, {u}) raised after unlink(v{a}, v{b})")
            require(len(got) == 0, "link-found-after-unlink", f"find_links(v{x}, v{y}, {ds}, {u}) = {sorted(got)} after unlink(v{a}, v{b})")
        else:
            require(got == table[(x, y, ds, u)], "unlink-disturbed-other-pair", f"find_links(v{x}, v{y}, {ds}, {u}) changed from {table[(x, y, ds, u)]} to {got} after unlink(v{a}, v{b})")
    return dict(nt=nt, classes=sorted(classes))
