"""
C19 — a universe and its laws always point at each other.

Case forms
  {"t":"hist","nu":2..3,"nl":2..3,"init":[k0,k1,..],"ops":[[side,i,j],...]}
      init[k]  : how universe k is constructed: -1 -> Universe() (default laws),
                 j>=0 -> Universe(laws=L[j]) (several universes may be GIVEN the
                 same law set: the second construction then moves it)
      side 0   : U[i].laws = L[j]          (j == nl -> None)
      side 1   : L[i].applies_to = U[j]    (j == nu -> None)
      side 3   : U[i].laws = the default law set universe j was constructed with (kept by the caller)
      side 2   : L[i].applies_to = Universe()   a fresh universe that nothing but the law set refers to
      "sp"     : per step (cyclic) 1 -> the assignment is spelled obj["laws"] = x / obj["applies_to"] = x
      "rep"    : per step (cyclic) how many times the assignment is issued in a row (1 or 300)
      "deep"   : U[0] contains a chain of universes nested that many levels deep
      "lk"     : the first two universes are joined by an edge (they are vertices of an outer graph)
  {"t":"attrs", "wl":..., "mixed":b, "cycles":b, "multipath":b, "multiverse":b}
"""
import itertools
import weakref

from hypothesis import strategies as st

from eglib.driver import Violation, require, sharded

ID = "C19"
LEVEL = "exploration"
DESIGN_REF = "DESIGN.md §3 C19"
RULE = (
    "Histories of assignments to Universe.laws / UniverseLaws.applies_to over a pool of 2-3 "
    "universes and 2-3 free law sets plus None, starting from every initial configuration "
    "(universe built with default laws or given one of the law sets, possibly one already "
    "given to another universe); bounded-exhaustive over all sequences up to the stated "
    "length for the 2x2 pool, Hypothesis beyond it (there also: assignments in the item spelling obj['laws'] = x, universes that are linked as vertices of an outer graph, assignments issued 300 times in a row, histories in which nothing is read before the first assignment, re-attaching the default law set a universe was born with (kept by the caller) to any universe, and a chain of universes nested 3500 levels deep inside the first universe).  After every step the bijection "
    "`u.laws is L <=> L.applies_to is u` is checked for ALL pairs including displaced "
    "default law sets.  At the end of every history two unrelated universes are constructed and the bijection is checked again over everything.  Plus a second law set built from the same (meanwhile modified) whitelist dictionary object, and constructor read-back/immutability cases for the rule "
    "attributes.  Non-trivial = some step moves a law set that is in use elsewhere, or "
    "assigns after a None, or drives the binding from the applies_to side onto a "
    "universe that already has laws; distinct = distinct case value."
)
ASSUMPTIONS = [
    "what a displaced universe receives (None or a fresh default law set) is not pinned",
    "law sets and universes are only manipulated through the two public setters and constructors",
    "universe / law-set subclasses may define __len__/__bool__ (truth value False) but not __eq__",
]


def budget(tier):
    if tier == "quick":
        return dict(shards=16, examples=1500, time_s=50)
    return dict(shards=16, examples=40000, time_s=800)


def _ops_alphabet(nu, nl):
    return [(0, i, j) for i in range(nu) for j in range(nl + 1)] + [
        (1, i, j) for i in range(nl) for j in range(nu + 1)
    ]


def enumerate_cases(tier, shard=0, nshards=1):
    depth = 4 if tier == "quick" else 6
    nu = nl = 2
    inits = [[a, b] for a in (-1, 0, 1) for b in (-1, 0, 1)]
    alpha = _ops_alphabet(nu, nl)

    def gen():
        for k in range(0, depth + 1):
            for seq in sharded(itertools.product(alpha, repeat=k), shard, nshards):
                ops = [list(o) for o in seq]
                for init in inits:
                    yield {"t": "hist", "nu": nu, "nl": nl, "init": init, "ops": ops}
                    if k <= depth - 1:
                        # the same histories over a universe class that is falsy while empty
                        # (defines __len__) and a law-set class with __bool__ False
                        yield {"t": "hist", "nu": nu, "nl": nl, "init": init, "ops": ops, "ucls": [1], "lcls": [1]}

    n = (sum(len(alpha) ** k for k in range(depth + 1)) + sum(len(alpha) ** k for k in range(depth))) * len(inits)
    return gen(), (
        f"all {n} histories: every sequence of <= {depth} assignments over 2 universes x "
        f"(2 law sets + None) from both sides, from all 9 initial configurations; sequences of <= {depth - 1} "
        f"assignments are repeated with a falsy-while-empty Universe subclass and a falsy UniverseLaws subclass"
    )


def strategy(tier):
    maxlen = 30 if tier == "quick" else 60

    hist = st.builds(
        lambda nu, nl, init, ops, ucls, lcls, sp, lk, rep, deep: {
            "t": "hist",
            **({"rep": rep} if any(x > 1 for x in rep) else {}),
            **({"deep": deep} if deep else {}),
            **({"quiet": True} if (len(ops) + nu + nl) % 3 == 0 and not deep and not lk else {}),
            **({"sp": sp} if any(sp) else {}),
            **({"lk": True} if lk else {}),
            "nu": nu,
            "nl": nl,
            "ucls": ucls,
            "lcls": lcls,
            "init": [(x % (nl + 1)) - 1 for x in init[:nu]] + [-1] * (nu - len(init[:nu])),
            # (a deeply nested case always ends with an assignment to the outermost universe, from either side)
            "ops": [[s, i % (nu if s in (0, 3) else nl), (j % 2) if s == 2 else ((j % nu) if s == 3 else j % ((nl if s == 0 else nu) + 1))] for s, i, j in ops] + ([[0, 0, 0], [1, 1, 0]] if deep else []),
        },
        st.integers(2, 3),
        st.integers(2, 3),
        st.lists(st.integers(0, 3), max_size=3),
        st.lists(st.tuples(st.sampled_from([0, 0, 0, 1, 1, 1, 2, 3]), st.integers(0, 5), st.integers(0, 11)), max_size=maxlen),
        st.lists(st.integers(0, 1), min_size=1, max_size=3),
        st.lists(st.integers(0, 1), min_size=1, max_size=3),
        st.lists(st.sampled_from([0, 0, 1]), min_size=1, max_size=3),
        st.booleans(),
        st.lists(st.sampled_from([1] * 30 + [300]), min_size=1, max_size=4),
        st.sampled_from([0] * 14 + [3500]),   # deeper than the interpreter stack even with the extra head-room Hypothesis arranges
    )
    wl = st.one_of(
        st.none(),
        st.lists(
            st.tuples(st.integers(0, 3), st.lists(st.tuples(st.integers(0, 3), st.integers(0, 3)), max_size=3)),
            max_size=3,
        ),
    )
    attrs = st.builds(
        lambda wl, a, b, c, d, vals: {
            "t": "attrs",
            "wl": None if wl is None else [[t, [list(p) for p in inner]] for t, inner in wl],
            "flags": [a, b, c, d],
            "vals": vals,
        },
        wl,
        st.booleans(),
        st.booleans(),
        st.booleans(),
        st.booleans(),
        st.lists(st.integers(0, 4), min_size=4, max_size=4),
    )
    return st.one_of(hist, hist, hist, attrs)


def _check_hist(case):
    from edgegraph.structure import Universe
    from edgegraph.structure.universe import UniverseLaws

    from eglib import classes as C

    class FalsyLaws(UniverseLaws):
        def __bool__(self):
            return False

    nu, nl = case["nu"], case["nl"]
    ucls = case.get("ucls") or [0]
    lcls = case.get("lcls") or [0]
    quiet = bool(case.get("quiet"))
    UC = lambda k: (Universe, C.CountedUniverse)[ucls[k % len(ucls)] % 2]
    L = [(UniverseLaws, FalsyLaws)[lcls[k % len(lcls)] % 2]() for k in range(nl)] + [None]
    temps = []          # weak references to universes only the law sets hold on to
    temp_bound = {}     # id(law set) -> True while its applies_to is such a universe
    U = []
    all_laws = [x for x in L if x is not None]
    classes = set()
    nt = False

    def note_laws():
        for u in U:
            lw = u.laws
            if lw is not None and all(lw is not x for x in all_laws):
                all_laws.append(lw)

    def inv(where):
        note_laws()
        for ui, u in enumerate(U):
            for li, lw in enumerate(all_laws):
                a = u.laws is lw
                b = lw.applies_to is u
                if a != b:
                    raise Violation(
                        "binding-asymmetric",
                        f"{where}: U{ui}.laws is L{li} = {a} but L{li}.applies_to is U{ui} = {b}",
                    )
        for li, lw in enumerate(all_laws):
            tgt = lw.applies_to
            if tgt is not None and all(tgt is not u for u in U):
                # a universe the harness does not hold on to (side-2 op): it must point back
                if not any(r() is tgt for r in temps):
                    raise Violation("binding-dangling", f"{where}: L{li}.applies_to is not a known universe")
                if tgt.laws is not lw:
                    raise Violation("binding-asymmetric", f"{where}: L{li}.applies_to is a universe whose laws is not L{li}")
            if temp_bound.get(id(lw)) and tgt is None:
                raise Violation("binding-lost", f"{where}: L{li}.applies_to was set to a universe and now reads None although nothing re-assigned it")
            del tgt

    for k, sel in enumerate(case["init"][:nu]):
        try:
            if sel < 0:
                u = UC(k)()
            else:
                if L[sel].applies_to is not None:
                    classes.add("init-gives-law-set-in-use")
                    nt = True
                u = UC(k)(laws=L[sel])
        except Exception as e:  # noqa
            raise Violation("constructor-raised", f"Universe(laws=L{sel}) for U{k}: {e!r}")
        U.append(u)
        if k and (ucls[0] + lcls[0] + k) % 2:
            # a universe that contains another universe as a member (nesting must not matter to the binding)
            u.add_vertex(U[0])
            classes.add("universe-containing-a-universe")
        if quiet:
            continue        # nothing is READ before the first assignment (a caller that configures first, looks later)
        if sel >= 0:
            require(u.laws is L[sel], "constructor-post", f"U{k}.laws is not the law set passed")
            require(L[sel].applies_to is u, "constructor-post", f"L{sel}.applies_to is not U{k}")
        else:
            require(u.laws is not None and u.laws.applies_to is u, "constructor-post", "default laws not bound")
        inv(f"after constructing U{k}")
    Ux = U + [None]
    born_with = [None] * nu if quiet else [(u.laws if sel < 0 else None) for u, sel in zip(U, case["init"][:nu])]
    if quiet:
        classes.add("nothing-read-before-the-first-assignment")
    if case.get("deep"):
        # U[0] contains a chain of universes nested `deep` levels (each one the only member of the previous one)
        inner = U[0]
        for _ in range(case["deep"]):
            nxt = Universe()
            inner.add_vertex(nxt)
            inner = nxt
        del inner, nxt
        classes.add("universes-nested-%d-deep" % case["deep"])
    if case.get("lk"):
        # the universes are also VERTICES of an outer graph: an edge joins the first two
        from edgegraph.structure import DirectedEdge

        keep_edge = DirectedEdge(U[0], U[1])  # noqa: F841 - kept alive for the whole case
        classes.add("universes-linked-as-vertices")
    sp = case.get("sp") or [0]

    rep = case.get("rep") or [1]

    def put(obj, name, val, step):
        """The assignment, spelled obj.name = val or (BaseObject item access) obj["name"] = val; some assignments are
        issued many times in a row (re-assigning what is already assigned must stay a no-op however often it is done)."""
        n = rep[step % len(rep)]
        if n > 1:
            classes.add("assignment-repeated-%dx" % n)
        for _ in range(n):
            if sp[step % len(sp)]:
                classes.add("item-spelling")
                obj[name] = val
            else:
                setattr(obj, name, val)

    for step, (side, i, j) in enumerate(case["ops"]):
        if quiet and step == 0 and side == 0 and not case.get("deep") and not case.get("lk"):
            # the very first thing that happens to U[i] after its construction is this assignment
            new = L[j]
            where = f"step 0 U{i}.laws = {'None' if new is None else 'L%d' % j} (nothing was read before)"
            try:
                put(U[i], "laws", new, step)
            except Exception as e:  # noqa
                raise Violation("assignment-raised", f"{where}: {e!r}")
            require(U[i].laws is new, "assignment-post", f"{where}: U.laws is not the assigned value")
            if new is not None:
                require(new.applies_to is U[i], "assignment-post", f"{where}: L.applies_to is not U")
            inv(where)
            continue
        if side == 3:
            # U[i].laws = <the default law set universe j was constructed with> (the caller kept it): any law set
            # may be assigned, also one that was displaced earlier
            lw = born_with[j % len(born_with)]
            where = f"step {step} U{i}.laws = (the default law set U{j % len(born_with)} was born with)"
            if lw is None:
                continue
            try:
                put(U[i], "laws", lw, step)
            except Exception as e:  # noqa
                raise Violation("assignment-raised", f"{where}: {e!r}")
            require(U[i].laws is lw and lw.applies_to is U[i], "assignment-post", where)
            classes.add("re-attach-a-displaced-default-law-set")
            inv(where)
            continue
        if side == 2:
            # L[i].applies_to = <a universe nobody else refers to>: the binding must stick
            lw = L[i]
            where = f"step {step} L{i}.applies_to = Universe()  (temporary, not retained by the caller)"
            try:
                put(lw, "applies_to", UC(j)(), step)
            except Exception as e:  # noqa
                raise Violation("assignment-raised", f"{where}: {e!r}")
            tgt = lw.applies_to
            require(tgt is not None, "binding-lost", f"{where}: L.applies_to reads None right after the assignment")
            require(tgt.laws is lw, "assignment-post", f"{where}: the universe's laws is not L")
            temps.append(weakref.ref(tgt))
            del tgt
            temp_bound[id(lw)] = True
            classes.add("applies_to-a-universe-nobody-else-holds")
            nt = True
            inv(where)
            continue
        where = f"step {step} {'U%d.laws = %s' % (i, 'None' if L[j] is None else 'L%d' % j) if side == 0 else 'L%d.applies_to = %s' % (i, 'None' if Ux[j] is None else 'U%d' % j)}"
        if side == 0 and L[j] is not None:
            temp_bound.pop(id(L[j]), None)
        if side == 1:
            temp_bound.pop(id(L[i]), None)
        if side == 0:
            u, new = U[i], L[j]
            if new is not None and new.applies_to is not None and new.applies_to is not u:
                classes.add("move-law-set-in-use")
                nt = True
            if u.laws is None and new is not None:
                classes.add("assign-after-None")
                nt = True
            if new is None:
                classes.add("assign-None")
            try:
                put(u, "laws", new, step)
            except Exception as e:  # noqa
                raise Violation("assignment-raised", f"{where}: {e!r}")
            require(u.laws is new, "assignment-post", f"{where}: U.laws is not the assigned value")
            if new is not None:
                require(new.applies_to is u, "assignment-post", f"{where}: L.applies_to is not U")
        else:
            lw, new = L[i], Ux[j]
            if new is not None and new.laws is not None and new.laws is not lw:
                classes.add("applies_to-onto-governed-universe")
                nt = True
            if lw.applies_to is not None and lw.applies_to is not new:
                classes.add("applies_to-moves-bound-law-set")
                nt = True
            try:
                put(lw, "applies_to", new, step)
            except Exception as e:  # noqa
                raise Violation("assignment-raised", f"{where}: {e!r}")
            require(lw.applies_to is new, "assignment-post", f"{where}: L.applies_to is not the assigned value")
            if new is not None:
                require(new.laws is lw, "assignment-post", f"{where}: U.laws is not L")
        inv(where)
    # an UNRELATED universe constructed afterwards gets a binding of its own (a law set that is still bound to one of the history's universes may not end
    # up bound to it as well - recycling one that nobody is bound to would be fine), and the bindings of the history's universes are untouched by it
    try:
        late = [UC(0)(), UC(1)()]
    except Exception as e:  # noqa
        raise Violation("constructor-raised", f"Universe() after the history: {e!r}")
    for k, lu in enumerate(late):
        require(lu.laws is not None and lu.laws.applies_to is lu, "constructor-post", f"late universe #{k}: default laws not bound to it")
    U.extend(late)
    inv("after constructing two unrelated universes")
    if any(ucls):
        classes.add("falsy-(empty, __len__)-universe-class")
    if any(lcls):
        classes.add("falsy-law-set-class")
    return dict(nt=nt, classes=sorted(classes), enum_scope=(nu == 2 and nl == 2 and len(case["ops"]) <= 4 and not any(ucls) and not any(lcls)))


_TYPES = None


def _types():
    global _TYPES
    if _TYPES is None:
        from edgegraph.structure import DirectedEdge, UnDirectedEdge, Universe, Vertex

        _TYPES = [Vertex, Universe, DirectedEdge, UnDirectedEdge]
    return _TYPES


def _check_attrs(case):
    from edgegraph.structure.universe import UniverseLaws

    T = _types()
    wl = None
    if case["wl"] is not None:
        wl = {}
        for t, inner in case["wl"]:
            wl[T[t]] = {T[a]: T[b] for a, b in inner}
    expect = None if wl is None else {k: dict(v) for k, v in wl.items()}
    backing = None
    if wl is not None and case["vals"][0] % 2:
        # the caller passes read-only VIEWS of dictionaries it keeps (and changes later)
        import types

        import collections

        backing = wl
        if case["vals"][1] % 2:
            wl = {k: types.MappingProxyType(v) for k, v in backing.items()}
        else:
            wl = {k: collections.ChainMap({}, v) for k, v in backing.items()}     # the rules live in a lower layer
    # rule values: truthy/falsy values of several types must read back unchanged (identity)
    pool = [True, False, 0, 1, "yes"]
    a, b, c, d = (pool[v] if flag else bool(v % 2) for flag, v in zip(case["flags"], case["vals"]))
    try:
        if case["vals"][2] % 2:
            lw = UniverseLaws(wl, a, b, c, d)        # the five rules passed positionally, in the documented order
        else:
            lw = UniverseLaws(edge_whitelist=wl, mixed_links=a, cycles=b, multipath=c, multiverse=d)
    except Exception as e:  # noqa
        raise Violation("laws-constructor-raised", repr(e))
    got = lw.edge_whitelist
    if expect is None:
        require(got is None, "readback", "edge_whitelist None did not read back as None")
    else:
        require(got is not None and {k: dict(v) for k, v in got.items()} == expect, "readback",
                f"edge_whitelist read back {got!r}")
    for name, val in (("mixed_links", a), ("cycles", b), ("multipath", c), ("multiverse", d)):
        require(getattr(lw, name) is val or getattr(lw, name) == val, "readback", f"{name} read back {getattr(lw, name)!r} != {val!r}")
    for name in ("edge_whitelist", "mixed_links", "cycles", "multipath", "multiverse"):
        before = getattr(lw, name)
        try:
            setattr(lw, name, {} if name == "edge_whitelist" else (not before))
        except AttributeError:
            pass
        else:
            raise Violation("rule-attribute-assignable", f"assignment to {name} succeeded")
        after = getattr(lw, name)
        require((before is None and after is None) or before == after, "rule-attribute-changed", name)
    if got is not None:
        try:
            got[T[0]] = {}
        except TypeError:
            pass
        else:
            raise Violation("whitelist-proxy-mutable", "outer mapping accepted item assignment")
        for k, inner in got.items():
            try:
                inner[T[0]] = T[1]
            except TypeError:
                pass
            else:
                raise Violation("whitelist-proxy-mutable", "inner mapping accepted item assignment")
        require({k: dict(v) for k, v in lw.edge_whitelist.items()} == expect, "readback", "edge_whitelist changed")
    if wl is not None:
        # "cannot be changed afterwards": neither through the object nor through the dictionaries passed in
        for inner in (backing or wl).values():
            inner[T[3]] = T[2]
            inner.pop(T[0], None)
        wl[T[2]] = {T[2]: T[2]}
        now = lw.edge_whitelist
        require(now is not None and {k: dict(v) for k, v in now.items()} == expect, "rule-attribute-changed",
                "edge_whitelist changed after the caller mutated the dictionaries it had passed to the constructor")
        # the SAME (by now modified) dictionary object given to a second constructor: the second law set shows what was
        # passed to IT, the first one still what was passed to it
        expect2 = {k: dict(v) for k, v in wl.items()}
        try:
            lw2 = UniverseLaws(edge_whitelist=wl)
        except Exception as e:  # noqa
            raise Violation("laws-constructor-raised", f"second construction from the same dictionary object: {e!r}")
        got2 = lw2.edge_whitelist
        require(got2 is not None and {k: dict(v) for k, v in got2.items()} == expect2, "readback", f"a second law set built from the same (modified) dictionary object read back {got2!r}, expected {expect2!r}")
        require({k: dict(v) for k, v in lw.edge_whitelist.items()} == expect, "rule-attribute-changed", "the first law set changed when a second one was built from the same dictionary object")
    nt = wl is not None and len(wl) > 0
    return dict(nt=nt, classes=["attrs"])


def check_case(case):
    if case["t"] == "hist":
        return _check_hist(case)
    return _check_attrs(case)

LEVEL_TEXT = (
    "Bounded-exhaustive exploration: every assignment history up to length 4 (quick) / 6 (thorough) over 2 universes "
    "x (2 law sets + None), from both setters and all 9 initial configurations, plus Hypothesis histories over a "
    "3x3 pool up to length 30/60; the all-pairs bijection is asserted after every step.  The smallest "
    "counterexamples of this property are 1-2 assignments long, so exhaustive small scope is the right depth."
)
LEVEL_NOTE = (
    "Trusts: the bijection oracle (identity comparisons through the public getters only); does not pin what a "
    "displaced universe receives.  Search, not proof: longer histories over larger pools are sampled only."
)
TECHNIQUE = "bounded-exhaustive history enumeration + Hypothesis stateful (op-list) search against an all-pairs invariant"
