"""
C08 — each search returns the first match of its corresponding traversal, or None.

Case: {"t": trav case (directed/undirected-family links only, default settings),
       "attr": 0..3, "plan": [per-vertex value selector ...], "sought": int, "mode": 0..3}
"""
from hypothesis import strategies as st

from eglib import graphs, trav
from eglib.driver import Violation, require
from eglib.model import ERROR, FORWARD, ref_bfs, ref_dfs_pre, ref_dfs_stack

ID = "C08"
LEVEL = "exploration"
DESIGN_REF = "DESIGN.md §3 C08"
RULE = (
    "Hypothesis multigraphs (<= 8 vertices, <= 14 links of the directed/undirected families incl. subclasses; an "
    "unknown-class link would make both search and traversal raise under the searches' fixed default settings - "
    "excluded by construction), universes as ordered subsets or None, vertex classes incl. a falsy Vertex "
    "subclass (__bool__ False) and one falsy through __len__, an attribute plan (name in {k, name, uid, i, the dotted name 'node.id', 'code' (a normalising property on some vertex classes, a plain attribute on others), 'cycles' (user data named like a universe law, some vertices being universes)}; values "
    "from a 3-value domain so several listed vertices match; some vertices lack the attribute; matching vertices "
    "may lie outside the universe) and a sought value that is equal but not identical to the stored one (big int "
    "rebuilt at run time, float vs int, rebuilt str) or absent, or an object whose == accepts every value (then the first listed vertex HAVING the attribute is the match), or None (stored None must match, a vertex lacking the attribute must not).  One sought value is a NaN that IS the stored object (identical, equal to nothing: no match).  With a start vertex outside the universe, and with an empty universe, the search must do what its traversal does (raise ValueError / find nothing) - it may not hand back the start.  Cases run with neighbor caching on or off, a few worlds are scaled up (a chain of 260 / 300 attribute-less vertices in front of the start vertex, 70 / 340 / 1300 further links at the start vertex), universes are optionally padded with 40 / 1000 isolated members, and every case is evaluated again on the same objects after a membership swap (one member out, one non-member in).  Oracle: the first vertex of bft / dft_recursive / "
    "dft_iterative (the library's own listing, FORWARD + defaults) with hasattr and ==, else None; the search "
    "must return that very object; cross-checked against the reference orders.  Non-trivial = >= 2 listed "
    "vertices match, or the expected match is falsy, or a matching vertex exists only outside the universe / "
    "unreachable; distinct = distinct case value."
)
ASSUMPTIONS = [
    "only directed/undirected-family links (searches use neighbors() defaults, which raise on other classes)",
    "vertex subclasses override truthiness only, never __eq__/__hash__",
    "start is a member of the universe",
]
LEVEL_TEXT = "Exploration: differential of each search against the first match of its own traversal's listing (and of an independent reference order) over random multigraphs, vertex classes and attribute/value plans."
LEVEL_NOTE = "Trusts the traversals' listings (validated separately by C06/C07) and the reference orders. Search, not proof."
TECHNIQUE = "Hypothesis differential: search result vs. first match in traversal order (library listing and reference model)"

ATTRS = ["k", "name", "uid", "i", "node.id", "code", "cycles"]


def budget(tier):
    if tier == "quick":
        return dict(shards=16, examples=1500, time_s=55)
    return dict(shards=16, examples=40000, time_s=850)


def strategy(tier):
    return st.builds(
        lambda t, attr, plan, sought, mode: {"t": t, "attr": attr, "plan": plan, "sought": sought, "mode": mode},
        trav.cases(classes=4, settings=False, big=(tier != "quick")),
        st.integers(0, 6),
        st.lists(st.integers(0, 3), min_size=1, max_size=8),
        st.integers(0, 8),
        st.integers(0, 6),
    )


BIG = 10 ** 20
_NAN = float("nan")


class _Holder:
    def __init__(self, ident):
        self.id = ident


class _Anything:
    """A sought value whose == accepts every stored value (like unittest.mock.ANY)."""

    def __eq__(self, other):
        return True

    def __ne__(self, other):
        return False

    __hash__ = None

    def __repr__(self):
        return "<ANYTHING>"


def check_case(case):
    with trav.caching(case["t"].get("cache")):
        S = trav.Setup(case["t"])
        info = _check_on(S, case, first=True)
        if S.apply_swap():
            info2 = _check_on(S, case, first=False)
            info["classes"] = sorted(set(info["classes"]) | {"after-membership-swap"})
            info["nt"] = info["nt"] or info2["nt"]
        if case["mode"] % 2 == 0 and case["t"].get("pad", 0) < 100:
            # the searched world copied (deepcopy / pickle / nrpickler) and searched again
            S.replace_by_copy(case["sought"])
            _check_on(S, case, first=False)
            info["classes"] = sorted(set(info["classes"]) | {"on-copy-of-searched-graph"})
        return info


def _check_on(S, case, first):
    from edgegraph.traversal import breadthfirst as B
    from edgegraph.traversal import depthfirst as D

    t = case["t"]
    n = len(S.vs)
    an = ATTRS[case["attr"]]
    plan = case["plan"]
    mode = case["mode"]
    # ---- attribute plan: selector 3 -> vertex lacks the attribute, else value class 0..2
    chain = graphs.scale_layout(t["g"])[1]
    for i, v in enumerate(S.vs):
        sel = plan[i % len(plan)]
        if i in chain:
            sel = 3         # the vertices of a prepended chain never carry the attribute: matches lie below it
        if an == "k" and sel != 3:
            if mode == 6:
                v.k = _NAN                              # the very object that is sought - which is not == itself
            elif mode == 4:
                v.k = None if sel == 0 else BIG + sel   # stored None is a legitimate value to look for
            else:
                v.k = (BIG + sel) if mode != 1 else (1000 + sel)
        elif an == "name" and sel != 3:
            v.name = "n" + str(sel)
        elif an == "node.id" and sel != 3:
            v["node.id"] = 70 + sel             # an attribute whose NAME contains a dot (item access allows it)
            if sel == 1:
                v.node = _Holder(70)            # ... next to an attribute path node -> id that must NOT be followed
        elif an == "code" and sel != 3:
            # SubVertex-family vertices have a normalising PROPERTY of that name (raw value kept lower-case)
            v.code = ("n%d" if isinstance(type(v).__dict__.get("code", getattr(type(v), "code", None)), property) else "N%d") % sel
        elif an == "cycles" and sel != 3:
            v.cycles = 70 + sel                 # user data named like a universe law (some vertices ARE universes)
    s = case["sought"]
    if mode == 6 and an == "k":
        sought = _NAN                                 # identical to the stored values, equal to none of them: no match
    elif mode == 5:
        sought = _Anything()                          # == to every value: the first vertex HAVING the attribute matches
    elif mode == 4 and an in ("k", "name"):
        sought = None                                 # vertices LACKING the attribute must not match None
    elif an == "k":
        if mode == 0:
            sought = int(str(BIG + s % 3))       # equal, not identical
        elif mode == 1:
            sought = float(1000 + s % 3)          # 1000.0 == 1000
        elif mode == 2:
            sought = BIG + 7                      # absent
        else:
            sought = int(str(BIG + s % 4))
    elif an == "name":
        sought = "".join(["n", str(s % 4)])       # rebuilt str; n3 is absent
    elif an in ("node.id", "cycles"):
        sought = 70 + s % 4
    elif an == "code":
        sought = "".join(["N", str(s % 4)])
    elif an == "uid":
        sought = int(str(S.vs[s % n].uid)) if mode != 2 else 12345
    else:
        sought = s if mode != 1 else float(s)     # i: ints 0..n-1; s may exceed -> absent

    def matches(v):
        return hasattr(v, an) and getattr(v, an) == sought

    start = S.vs[S.start]
    classes = set()
    nt = False
    refs = {"bfs": ref_bfs, "dfs_recursive": ref_dfs_pre, "dfs_iterative": ref_dfs_stack}
    for sname, sfn, tfn in (("bfs", B.bfs, B.bft), ("dfs_recursive", D.dfs_recursive, D.dft_recursive), ("dfs_iterative", D.dfs_iterative, D.dft_iterative)):
        with trav.neighbor_budget(4 * (n + 2) * (n + 2) + 32):
            order = tfn(S.uni, start)
        exp = next((x for x in order if matches(x)), None)
        with trav.neighbor_budget(8 * (n + 2) * (n + 2) + 32):
            try:
                got = sfn(S.uni, start, an, sought)
            except Exception as e:  # noqa
                raise Violation("search-raised", f"{sname}: {e!r}")
        ctx = f"{sname}(members={None if S.mem is None else sorted(S.mem)}, start={S.start}, {an!r}, {sought!r}); listing {S.idx(order)}, matching vertices {[i for i, v in enumerate(S.vs) if matches(v)]}"
        if got is not exp:
            gi = None if got is None else S.vi.get(id(got), "?")
            ei = None if exp is None else S.vi[id(exp)]
            if got is None:
                kind = "match-missed"
            elif exp is None or not matches(got) or got not in order:
                kind = "wrong-vertex-returned"
            else:
                kind = "not-first-match"
            raise Violation(kind, f"{ctx}: returned {gi}, expected {ei}")
        # cross-check against the independent reference order
        rorder = refs[sname](S.G, S.start, S.mem, FORWARD, ERROR, None)
        rexp = next((i for i in rorder if matches(S.vs[i])), None)
        require((None if got is None else S.vi[id(got)]) == rexp, "search-vs-reference", f"{ctx}: reference order {rorder} gives {rexp}")
        nm = sum(1 for x in order if matches(x))
        if nm >= 2:
            nt = True
            classes.add("several-listed-matches")
        if exp is not None and not bool(exp):
            nt = True
            classes.add("falsy-match")
            if order.index(exp) >= 2:
                classes.add("falsy-match-deep")
        if exp is None and any(matches(v) for v in S.vs):
            nt = True
            classes.add("match-only-outside-universe-or-unreachable")
        if exp is start:
            classes.add("start-matches")
        if exp is None:
            classes.add("no-match")
    # ---- a start vertex OUTSIDE the universe, and an empty universe: whatever the traversal does (it raises
    #      ValueError, or lists nothing), the search does the same - in particular it does not hand back the start
    if first and S.uni is not None and n <= 40:
        from edgegraph.structure import Universe

        def outcome(fn):
            try:
                return ("ok", fn())
            except RecursionError:
                raise
            except Exception as e:  # noqa
                return ("raise", type(e).__name__)

        outsiders = [v for i, v in enumerate(S.vs) if i not in S.mem]
        probes = [(S.uni, o, "start outside the universe") for o in outsiders[:2]] + [(Universe(), S.vs[S.start], "empty universe")]
        for uni2, st_, what in probes:
            for sname, sfn, tfn in (("bfs", B.bfs, B.bft), ("dfs_recursive", D.dfs_recursive, D.dft_recursive), ("dfs_iterative", D.dfs_iterative, D.dft_iterative)):
                t_out = outcome(lambda: tfn(uni2, st_))
                s_out = outcome(lambda: sfn(uni2, st_, an, sought))
                if t_out[0] == "raise":
                    require(s_out == t_out, "search-vs-traversal-on-invalid-start", f"{sname} ({what}): the traversal raises {t_out[1]}, the search {'returned ' + repr(s_out[1]) if s_out[0] == 'ok' else 'raises ' + s_out[1]}")
                else:
                    exp2 = next((x for x in t_out[1] if matches(x)), None)
                    require(s_out == ("ok", exp2), "search-vs-traversal-on-invalid-start", f"{sname} ({what}): the traversal lists {S.idx(list(t_out[1]))}, the search gave {s_out}")
        classes.add("start-outside-universe/empty-universe")
    classes.add("attr-" + an)
    classes.add("caching-on" if t.get("cache") else "caching-off")
    if sought is None:
        classes.add("sought-None")
    if mode == 5:
        classes.add("sought-value-with-permissive-__eq__")
    return dict(nt=nt, classes=sorted(classes))
